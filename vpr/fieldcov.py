"""R-FIELDCOV: state coverage of save/restore pairs over the field access index + MIR provenance."""
from .facts import root_fn
from .prov import Slicer

BUILDER_SUFFIX = ("::new", "::default", "::with_capacity", "::from_events", "::new_with_event_time", "::new_internal", "::new_shared",
                  "::new_benchmark", "::new_with_optional_output")


def is_builder(F, fn, struct):
    """constructors and `with_*` builders (take self by value and return Self)"""
    if fn.endswith(BUILDER_SUFFIX):
        return True
    name = fn.rsplit("::", 1)[1]
    if name.startswith("with_") or name.startswith("from_"):
        return True
    return False


def runtime_state_fields(F, struct, save_fn, restore_fn):
    """{field: [mutating functions]} for fields written after construction"""
    out = {}
    fields = F.fields(struct) or []
    for f in fields:
        acc = F.field_accessors(struct, f["n"], kinds=("w", "m", "wt", "mt"))
        muts = [fn for fn in acc if fn not in (save_fn, restore_fn) and not is_builder(F, fn, struct)
                and not fn.endswith(("::restore", "::from_checkpoint", "::checkpoint", "::restore_checkpoint"))]
        if muts:
            out[f["n"]] = sorted(muts)
    return out


def fields_read_in(F, struct, fn):
    return {r["field"] for r in F.fieldacc if r["adt"] == struct and root_fn(r["f"]) == fn and r["k"] in ("r", "rt", "m", "mt")}


def restore_writes(ctx, F, struct, fn, cfg="default"):
    """{field: 'from-param' | 'constant' | 'other'} for writes of struct fields in a `restore(&mut self, cp)`-style fn,
    or for the `Self {..}` literal of a `from_checkpoint(cp) -> Self`-style fn"""
    res = {}
    for p in F.bodies_of(fn):
        b = ctx.body(p, cfg)
        if b is None:
            continue
        sl = Slicer(b)
        cp_params = {(i, n) for i in range(1, b.argc + 1) for n in [b.local_name(i)] if n != "self"}

        def classify(ops):
            o = sl.origins(ops)
            if any(pp in cp_params for pp in o.params) or o.upvars:
                return "from-param"
            if o.calls and not o.params:
                # values computed without touching the checkpoint (Default::default(), new(), Instant::now() ...)
                return "constant"
            if not o.params:
                return "constant"
            return "other"

        for bb in sorted(b.live):
            for s in b.stmts(bb):
                pr = s["d"]["p"]
                if pr and isinstance(pr[-1], dict) and pr[-1].get("a") == struct:
                    f = pr[-1]["f"]
                    c = classify(s["o"])
                    res[f] = "from-param" if "from-param" in (c, res.get(f)) else c
                if s["k"] == "agg" and s.get("agg", "") == "adt:" + struct:
                    for fname, op in zip(s["fields"], s["o"]):
                        c = classify([op])
                        res[fname] = "from-param" if "from-param" in (c, res.get(fname)) else c
            t = b.term(bb)
            if t["k"] == "call":
                pr = t["dest"]["p"]
                if pr and isinstance(pr[-1], dict) and pr[-1].get("a") == struct:
                    f = pr[-1]["f"]
                    c = classify(t["args"])
                    res[f] = "from-param" if "from-param" in (c, res.get(f)) else c
                # in-place mutation through &mut self.field passed to a call together with checkpoint data
                for a in t["args"]:
                    pl = a.get("c") or a.get("m")
                    if pl is None:
                        continue
                    d = sl.b.single_def(pl["l"]) if not pl["p"] else None
                    if d and d[0] == "stmt" and d[3]["k"] == "ref" and d[3].get("mut"):
                        src = d[3]["o"][0].get("c")
                        if src and src["p"] and isinstance(src["p"][-1], dict) and src["p"][-1].get("a") == struct:
                            f = src["p"][-1]["f"]
                            c = classify([x for x in t["args"] if x is not a])
                            res[f] = "from-param" if "from-param" in (c, res.get(f)) else (res.get(f) or c)
    return res


def check_pair(ctx, struct, save_fn, restore_fn, exceptions=None, rule="fieldcov", cfg="default"):
    """yields obligations for one save/restore pair"""
    F = ctx.facts(cfg)
    exceptions = exceptions or {}
    sname = struct.rsplit("::", 1)[1]
    if F.fields(struct) is None or F.mir(save_fn) is None or F.mir(restore_fn) is None:
        ctx.anchor_lost(rule, "pair %s: struct / %s / %s not found" % (sname, save_fn, restore_fn))
        return
    state = runtime_state_fields(F, struct, save_fn, restore_fn)
    saved = fields_read_in(F, struct, save_fn)
    restored = restore_writes(ctx, F, struct, restore_fn, cfg)
    for f in F.fields(struct):
        n = f["n"]
        key = "%s.%s" % (sname, n)
        if n not in state:
            ctx.ok(rule, key, "configuration (never written after construction)", nontrivial=False)
            continue
        if n in exceptions:
            ctx.ok(rule, key, "listed exception: " + exceptions[n], nontrivial=False)
            continue
        if n not in saved:
            ctx.violation(rule, key + ":save", "%s.%s is runtime state (written by %s) but %s never reads it: it is not in the checkpoint" % (
                sname, n, ", ".join(x.rsplit("::", 1)[1] for x in state[n][:3]), save_fn.rsplit("::", 2)[-2] + "::" + save_fn.rsplit("::", 1)[1]))
            continue
        r = restored.get(n)
        if r is None:
            ctx.violation(rule, key + ":restore", "%s.%s is runtime state and is saved, but %s never writes it" % (sname, n, restore_fn.rsplit("::", 2)[-2] + "::" + restore_fn.rsplit("::", 1)[1]))
        elif r == "constant":
            ctx.violation(rule, key + ":restore", "%s.%s is runtime state (written by %s) but %s sets it to a constant / default instead of the checkpointed value" % (
                sname, n, ", ".join(x.rsplit("::", 1)[1] for x in state[n][:3]), restore_fn.rsplit("::", 1)[1]))
        else:
            ctx.ok(rule, key, "saved and restored from the checkpoint")
    ctx.sample({"pair": sname, "runtime_state": sorted(state), "saved": sorted(saved & set(state)), "restored": {k: v for k, v in restored.items() if k in state}})
