"""Call graph over resolved callees; closures folded into their creator; CHA for dyn / unresolved trait calls."""
import json
import os
from collections import defaultdict, deque

from .facts import root_fn


class CallGraph:
    def __init__(self, facts, with_fnrefs=True):
        self.f = facts
        self.edges = defaultdict(set)  # caller root -> callee
        self.sites = defaultdict(list)  # (caller root, callee) -> [call rows]
        impls = facts.impls
        known = set(root_fn(p) for p in facts.mir_paths())
        for c in facts.calls:
            caller = root_fn(c["f"])
            tgt = c["inst"] or c["callee"]
            targets = []
            # class-hierarchy expansion only for dynamic calls and calls left unresolved (generic receiver);
            # a call resolved to a concrete (possibly foreign) impl goes to that impl only
            if c["virt"] or ((not c["inst"] or c["inst"] == c["callee"]) and c["callee"] in impls and tgt not in known):
                targets = list(impls.get(c["callee"], []))
            if not targets:
                targets = [tgt]
            for t in targets:
                t = root_fn(t)
                self.edges[caller].add(t)
                self.sites[(caller, t)].append(c)
        if with_fnrefs:
            for t in facts.targets:
                p = os.path.join(facts.dir, t + ".fnrefs.jsonl")
                if not os.path.exists(p):
                    continue
                with open(p) as fh:
                    for line in fh:
                        r = json.loads(line)
                        caller = root_fn(r["f"])
                        ref = root_fn(r["ref"])
                        if ref != caller:
                            self.edges[caller].add(ref)
                            self.sites.setdefault((caller, ref), [])
        self.known = known

    def reach(self, start, stop=None, within=None):
        """set of functions reachable from `start` (a path or list); `stop(fn)` prunes expansion;
        `within(fn)` restricts expansion to functions for which it is true (others are recorded, not expanded)."""
        if isinstance(start, str):
            start = [start]
        seen = set(start)
        parent = {s: None for s in start}
        dq = deque(start)
        while dq:
            f = dq.popleft()
            if stop and stop(f):
                continue
            if within and f not in start and not within(f):
                continue
            for g in self.edges.get(f, ()):
                if g not in seen:
                    seen.add(g)
                    parent[g] = f
                    dq.append(g)
        self._parent = parent
        return seen

    def path_to(self, target):
        """witness path for the last reach() call"""
        p = []
        cur = target
        while cur is not None:
            p.append(cur)
            cur = self._parent.get(cur)
        return list(reversed(p))

    def callers_of(self, callee):
        return sorted(c for c, es in self.edges.items() if callee in es)
