"""MIR CFG utilities: successors, dominators, edge dominance, must-pass-through, definitions."""
from collections import defaultdict


def op_place(op):
    """place of a copy/move operand, else None"""
    if op is None:
        return None
    return op.get("c") or op.get("m")


def op_const(op):
    return op.get("k") if op else None


def place_local(pl):
    return pl["l"] if pl else None


def place_fields(pl):
    return [e for e in pl["p"] if isinstance(e, dict) and "f" in e]


def place_str(body, pl):
    """human readable place: name or _N with projections"""
    if pl is None:
        return "?"
    l = pl["l"]
    nm = body.local_name(l)
    s = nm if nm else "_%d" % l
    for e in pl["p"]:
        if e == "*":
            s = "(*%s)" % s
        elif isinstance(e, dict) and "f" in e:
            s += "." + e["f"]
        elif isinstance(e, dict) and "d" in e:
            s += " as " + e["d"]
        elif isinstance(e, dict) and "i" in e:
            s += "[_%d]" % e["i"]
        else:
            s += "[..]"
    return s


class Body:
    def __init__(self, js):
        self.js = js
        self.path = js["f"]
        self.blocks = js["blocks"]
        self.n = len(self.blocks)
        self.locals = js["locals"]
        self.argc = js["argc"]
        self._succ = None
        self._pred = None
        self._dom = None
        self._defs = None
        self._reach0 = None

    # ------------------------------------------------------------ basics
    def local_name(self, l):
        return self.locals[l]["name"] if l < len(self.locals) else ""

    def local_ty(self, l):
        return self.locals[l]["ty"]

    def locals_named(self, name):
        return [i for i, l in enumerate(self.locals) if l["name"] == name]

    def is_param(self, l):
        return 1 <= l <= self.argc

    def term(self, bb):
        return self.blocks[bb]["t"]

    def stmts(self, bb):
        return self.blocks[bb]["s"]

    def succs_of(self, bb):
        t = self.blocks[bb]["t"]
        k = t["k"]
        if k == "call":
            return [t["target"]] if t["target"] is not None else []
        if k == "switch":
            return [b for _, b in t["cases"]] + [t["otherwise"]]
        if k in ("assert", "goto", "drop", "yield"):
            return [t["target"]]
        if k == "other":
            return [s for s in t.get("succ", []) if not self.blocks[s]["cl"]]
        return []

    @property
    def succ(self):
        if self._succ is None:
            self._succ = [self.succs_of(b) if not self.blocks[b]["cl"] else [] for b in range(self.n)]
        return self._succ

    @property
    def pred(self):
        if self._pred is None:
            p = [[] for _ in range(self.n)]
            for b, ss in enumerate(self.succ):
                for s in ss:
                    p[s].append(b)
            self._pred = p
        return self._pred

    def reachable(self, start=0, avoid_blocks=(), avoid_edges=()):
        avoid_blocks = set(avoid_blocks)
        avoid_edges = set(avoid_edges)
        if start in avoid_blocks:
            return set()
        seen = {start}
        st = [start]
        while st:
            b = st.pop()
            for s in self.succ[b]:
                if s in seen or s in avoid_blocks or (b, s) in avoid_edges:
                    continue
                seen.add(s)
                st.append(s)
        return seen

    @property
    def live(self):
        if self._reach0 is None:
            self._reach0 = self.reachable(0)
        return self._reach0

    def return_blocks(self):
        return [b for b in range(self.n) if self.blocks[b]["t"]["k"] == "return" and not self.blocks[b]["cl"]]

    # ------------------------------------------------------------ dominance
    @property
    def dom(self):
        """dom[b] = set of blocks dominating b (for reachable b)"""
        if self._dom is None:
            live = sorted(self.live)
            allb = set(live)
            dom = {b: set(allb) for b in live}
            dom[0] = {0}
            changed = True
            # reverse post order would be faster; sizes here are small
            while changed:
                changed = False
                for b in live:
                    if b == 0:
                        continue
                    ps = [p for p in self.pred[b] if p in allb]
                    if not ps:
                        continue
                    new = set.intersection(*(dom[p] for p in ps)) | {b}
                    if new != dom[b]:
                        dom[b] = new
                        changed = True
            self._dom = dom
        return self._dom

    def dominates(self, a, b):
        return b in self.dom and a in self.dom[b]

    def edge_dominates(self, edge, b):
        """every path entry -> b uses edge (x, y)"""
        if b not in self.live:
            return True
        return b not in self.reachable(0, avoid_edges=[edge])

    def blocks_dominate(self, xs, b):
        """every path entry -> b passes through one of the blocks xs (b itself counts if in xs)"""
        xs = set(xs)
        if b in xs:
            return True
        if b not in self.live:
            return True
        return b not in self.reachable(0, avoid_blocks=xs)

    def must_pass_through(self, xs, targets=None):
        """every path from entry to a target block (default: returns) passes through a block of xs.
        returns the list of target blocks reachable while avoiding xs (empty = holds)"""
        xs = set(xs)
        r = self.reachable(0, avoid_blocks=xs)
        targets = self.return_blocks() if targets is None else targets
        return [t for t in targets if t in r]

    def reaches(self, a, b, avoid_blocks=()):
        return b in self.reachable(a, avoid_blocks=avoid_blocks)

    def in_loop(self, b):
        """b lies on a cycle"""
        for s in self.succ[b]:
            if b in self.reachable(s):
                return True
        return False

    # ------------------------------------------------------------ calls / defs
    def calls(self, pred=None):
        """[(bb, term)] for call terminators in live, non-cleanup blocks"""
        out = []
        for b in sorted(self.live):
            t = self.blocks[b]["t"]
            if t["k"] == "call" and (pred is None or pred(t)):
                out.append((b, t))
        return out

    def call_blocks(self, names):
        """blocks whose call resolves (callee or inst) to a name in `names` or matching predicate"""
        out = []
        for b, t in self.calls():
            if callable(names):
                if names(t):
                    out.append(b)
            elif t["callee"] in names or t["inst"] in names:
                out.append(b)
        return out

    @property
    def defs(self):
        """local -> list of ('stmt', bb, i, stmt) | ('call', bb, term)  (whole or partial definitions)"""
        if self._defs is None:
            d = defaultdict(list)
            for b in range(self.n):
                if self.blocks[b]["cl"]:
                    continue
                for i, s in enumerate(self.blocks[b]["s"]):
                    d[s["d"]["l"]].append(("stmt", b, i, s))
                t = self.blocks[b]["t"]
                if t["k"] == "call":
                    d[t["dest"]["l"]].append(("call", b, t))
            self._defs = d
        return self._defs

    def switch_on(self, bb):
        t = self.blocks[bb]["t"]
        return t if t["k"] == "switch" else None
