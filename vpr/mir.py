"""MIR CFG utilities: successors, dominators, edge dominance, must-pass-through, definitions."""
from collections import defaultdict


def op_place(op):
    """place of a copy/move operand, else None"""
    if op is None:
        return None
    return op.get("c") or op.get("m")


def op_const(op):
    return op.get("k") if op else None


def place_local(pl):
    return pl["l"] if pl else None


def place_fields(pl):
    return [e for e in pl["p"] if isinstance(e, dict) and "f" in e]


def place_str(body, pl):
    """human readable place: name or _N with projections"""
    if pl is None:
        return "?"
    l = pl["l"]
    nm = body.local_name(l)
    s = nm if nm else "_%d" % l
    for e in pl["p"]:
        if e == "*":
            s = "(*%s)" % s
        elif isinstance(e, dict) and "f" in e:
            s += "." + e["f"]
        elif isinstance(e, dict) and "d" in e:
            s += " as " + e["d"]
        elif isinstance(e, dict) and "i" in e:
            s += "[_%d]" % e["i"]
        else:
            s += "[..]"
    return s


class Body:
    def __init__(self, js):
        self.js = js
        self.path = js["f"]
        self.blocks = js["blocks"]
        self.n = len(self.blocks)
        self.locals = js["locals"]
        self.argc = js["argc"]
        self._succ = None
        self._pred = None
        self._dom = None
        self._defs = None
        self._reach0 = None
        # captured variables: closure field index -> source name
        self.upvar_names = {}
        for u in js.get("upvars", []):
            for e in u["place"]["p"]:
                if isinstance(e, dict) and "f" in e and e.get("a", "").startswith("closure:"):
                    self.upvar_names[e["f"]] = u["name"]
                    break

    # ------------------------------------------------------------ basics
    def local_name(self, l):
        return self.locals[l]["name"] if l < len(self.locals) else ""

    def local_ty(self, l):
        return self.locals[l]["ty"]

    def locals_named(self, name):
        return [i for i, l in enumerate(self.locals) if l["name"] == name]

    def is_param(self, l):
        return 1 <= l <= self.argc

    def term(self, bb):
        return self.blocks[bb]["t"]

    def stmts(self, bb):
        return self.blocks[bb]["s"]

    def succs_of(self, bb):
        t = self.blocks[bb]["t"]
        k = t["k"]
        if k == "call":
            return [t["target"]] if t["target"] is not None else []
        if k == "switch":
            only = self._const_switch_target(bb, t)
            if only is not None:
                return [only]
            return [b for _, b in t["cases"]] + [t["otherwise"]]
        if k in ("assert", "goto", "drop", "yield"):
            return [t["target"]]
        if k == "other":
            return [s for s in t.get("succ", []) if not self.blocks[s]["cl"]]
        return []

    _KNOWN_DISCR = {"core::option::Option::None": 0, "core::option::Option::Some": 1, "core::result::Result::Ok": 0, "core::result::Result::Err": 1}

    def _const_switch_target(self, bb, t):
        """a switch on the discriminant of a value that was just built as a known Option/Result variant in the same block has one
        feasible edge (e.g. async_trait's `if let Some(__ret) = None::<T> { return __ret }` type-inference stub)"""
        discr = op_place(t["discr"])
        if discr is None or discr["p"]:
            return None
        dl = discr["l"]
        src = None
        for s in self.blocks[bb]["s"]:
            if s["d"]["l"] == dl and not s["d"]["p"] and s["k"] == "discr":
                pl = op_place(s["o"][0])
                if pl is not None and not pl["p"]:
                    src = pl["l"]
        if src is None:
            return None
        variant = None
        for s in self.blocks[bb]["s"]:
            if s["d"]["l"] == src and not s["d"]["p"] and s["k"] == "agg":
                variant = self._KNOWN_DISCR.get(s.get("agg", "")[4:])
        if variant is None:
            return None
        # the aggregate must be the only definition of that local
        n_defs = sum(1 for b2 in self.blocks for s in b2["s"] if s["d"]["l"] == src and not s["d"]["p"])
        if n_defs != 1:
            return None
        for v, tgt in t["cases"]:
            if v == variant:
                return tgt
        return t["otherwise"]

    @property
    def succ(self):
        if self._succ is None:
            self._succ = [self.succs_of(b) if not self.blocks[b]["cl"] else [] for b in range(self.n)]
        return self._succ

    @property
    def pred(self):
        if self._pred is None:
            p = [[] for _ in range(self.n)]
            for b, ss in enumerate(self.succ):
                for s in ss:
                    p[s].append(b)
            self._pred = p
        return self._pred

    def reachable(self, start=0, avoid_blocks=(), avoid_edges=()):
        avoid_blocks = set(avoid_blocks)
        avoid_edges = set(avoid_edges)
        if start in avoid_blocks:
            return set()
        seen = {start}
        st = [start]
        while st:
            b = st.pop()
            for s in self.succ[b]:
                if s in seen or s in avoid_blocks or (b, s) in avoid_edges:
                    continue
                seen.add(s)
                st.append(s)
        return seen

    @property
    def live(self):
        if self._reach0 is None:
            self._reach0 = self.reachable(0)
        return self._reach0

    def return_blocks(self):
        return [b for b in range(self.n) if self.blocks[b]["t"]["k"] == "return" and not self.blocks[b]["cl"]]

    # ------------------------------------------------------------ dominance
    @property
    def dom(self):
        """dom[b] = set of blocks dominating b (for reachable b)"""
        if self._dom is None:
            live = sorted(self.live)
            allb = set(live)
            dom = {b: set(allb) for b in live}
            dom[0] = {0}
            changed = True
            # reverse post order would be faster; sizes here are small
            while changed:
                changed = False
                for b in live:
                    if b == 0:
                        continue
                    ps = [p for p in self.pred[b] if p in allb]
                    if not ps:
                        continue
                    new = set.intersection(*(dom[p] for p in ps)) | {b}
                    if new != dom[b]:
                        dom[b] = new
                        changed = True
            self._dom = dom
        return self._dom

    def dominates(self, a, b):
        return b in self.dom and a in self.dom[b]

    def edge_dominates(self, edge, b):
        """every path entry -> b uses edge (x, y)"""
        if b not in self.live:
            return True
        return b not in self.reachable(0, avoid_edges=[edge])

    def blocks_dominate(self, xs, b):
        """every path entry -> b passes through one of the blocks xs (b itself counts if in xs)"""
        xs = set(xs)
        if b in xs:
            return True
        if b not in self.live:
            return True
        return b not in self.reachable(0, avoid_blocks=xs)

    def must_pass_through(self, xs, targets=None):
        """every path from entry to a target block (default: returns) passes through a block of xs.
        returns the list of target blocks reachable while avoiding xs (empty = holds)"""
        xs = set(xs)
        r = self.reachable(0, avoid_blocks=xs)
        targets = self.return_blocks() if targets is None else targets
        return [t for t in targets if t in r]

    def reaches(self, a, b, avoid_blocks=()):
        return b in self.reachable(a, avoid_blocks=avoid_blocks)

    def in_loop(self, b):
        """b lies on a cycle"""
        for s in self.succ[b]:
            if b in self.reachable(s):
                return True
        return False

    # ------------------------------------------------------------ calls / defs
    def calls(self, pred=None):
        """[(bb, term)] for call terminators in live, non-cleanup blocks"""
        out = []
        for b in sorted(self.live):
            t = self.blocks[b]["t"]
            if t["k"] == "call" and (pred is None or pred(t)):
                out.append((b, t))
        return out

    def call_blocks(self, names):
        """blocks whose call resolves (callee or inst) to a name in `names` or matching predicate"""
        out = []
        for b, t in self.calls():
            if callable(names):
                if names(t):
                    out.append(b)
            elif t["callee"] in names or t["inst"] in names:
                out.append(b)
        return out

    @property
    def defs(self):
        """local -> list of ('stmt', bb, i, stmt) | ('call', bb, term)  (whole or partial definitions)"""
        if self._defs is None:
            d = defaultdict(list)
            for b in range(self.n):
                if self.blocks[b]["cl"]:
                    continue
                for i, s in enumerate(self.blocks[b]["s"]):
                    d[s["d"]["l"]].append(("stmt", b, i, s))
                t = self.blocks[b]["t"]
                if t["k"] == "call":
                    d[t["dest"]["l"]].append(("call", b, t))
            self._defs = d
        return self._defs

    def switch_on(self, bb):
        t = self.blocks[bb]["t"]
        return t if t["k"] == "switch" else None

    def single_def(self, l):
        ds = self.defs.get(l, [])
        return ds[0] if len(ds) == 1 else None

    def chase(self, op, depth=0):
        """follow single-definition temporaries through use/ref/cast/deref to a 'root' description:
        ('local', name, place) | ('call', term) | ('const', k) | ('binop', stmt) | ('field', place) | ('tmp', place)"""
        pl = op_place(op)
        if pl is None:
            k = op_const(op)
            return ("const", k) if k is not None else ("tmp", None)
        l = pl["l"]
        if self.local_name(l):
            return ("local", self.local_name(l), pl)
        d = self.single_def(l)
        if d is None or depth > 8:
            return ("tmp", pl)
        if d[0] == "call":
            return ("call", d[2])
        s = d[3]
        if s["k"] in ("use", "ref", "cast") and s["o"]:
            return self.chase(s["o"][0], depth + 1)
        if s["k"] in ("binop", "unop"):
            return ("binop", s)
        if s["k"] == "discr":
            return ("discr", s)
        return ("tmp", pl)

    def desc(self, op, depth=0):
        """short text for an operand (variable name, field path, cast, call result, constant)"""
        pl = op_place(op)
        if pl is None:
            k = op_const(op)
            return k.get("val", "const") if k else "?"
        l = pl["l"]
        nm = self.local_name(l)
        fields = "".join("." + (self.upvar_names.get(e["f"], e["f"]) if e.get("a", "").startswith("closure:") else e["f"])
                         for e in pl["p"] if isinstance(e, dict) and "f" in e)
        if fields and l == 1 and not nm and pl["p"] and any(isinstance(e, dict) and e.get("a", "").startswith("closure:") for e in pl["p"]):
            return fields.lstrip(".")  # captured variable of a closure / async block: show its name
        if nm:
            return nm + fields
        d = self.single_def(l)
        if d is None or depth > 8:
            return "tmp" + fields
        if d[0] == "call":
            c = d[2]
            nmc = c["callee"].rsplit("::", 1)[-1]
            return "%s(%s)%s" % (nmc, ",".join(self.desc(a, depth + 1) for a in c["args"][:3]), fields)
        s = d[3]
        if s["k"] in ("use", "ref") and s["o"]:
            return self.desc(s["o"][0], depth + 1) + fields
        if s["k"] == "cast" and s["o"]:
            return "cast(%s)" % self.desc(s["o"][0], depth + 1)
        if s["k"] == "binop":
            return "(%s %s %s)" % (self.desc(s["o"][0], depth + 1), s["op"], self.desc(s["o"][1], depth + 1))
        if s["k"] == "unop":
            return "%s(%s)" % (s["op"], self.desc(s["o"][0], depth + 1))
        if s["k"] == "discr":
            return "discr(%s)" % self.desc(s["o"][0], depth + 1)
        if s["k"] == "agg":
            nm = s.get("agg", "agg").split(":", 1)[-1].rsplit("::", 2)
            nm = "::".join(nm[-2:])
            return "%s{%s}%s" % (nm, ",".join(self.desc(a, depth + 1) for a in s["o"][:4]), fields)
        return "tmp" + fields

    def guards_of(self, bb):
        """conditions that hold whenever bb executes: for every switch block with an out-edge that edge-dominates bb,
        returns dicts {sw, taken: 'true'|'false'|value, kind: 'cmp'|'call'|'discr'|'other', op, l, r, lop, rop, term, text}"""
        out = []
        if bb not in self.dom:
            return out
        for s in sorted(self.dom[bb]):
            t = self.blocks[s]["t"]
            if t["k"] != "switch" or s == bb and False:
                continue
            succs = set(self.succs_of(s))
            for y in succs:
                if y == s:
                    continue
                if not (y == bb or self.dominates(y, bb)):
                    continue
                if not self.edge_dominates((s, y), bb):
                    continue
                vals = [v for v, tgt in t["cases"] if tgt == y]
                is_other = t["otherwise"] == y
                if is_other and vals:
                    continue  # ambiguous
                g = {"sw": s, "dty": t["dty"], "values": vals, "otherwise": is_other}
                if t["dty"] == "bool":
                    g["taken"] = "false" if vals == [0] else "true"
                else:
                    g["taken"] = "other" if is_other else vals
                root = self.chase(t["discr"])
                g["kind"] = root[0]
                if root[0] == "binop":
                    st = root[1]
                    g["op"] = st["op"]
                    g["lop"], g["rop"] = st["o"][0], (st["o"][1] if len(st["o"]) > 1 else None)
                    g["l"] = self.desc(st["o"][0])
                    g["r"] = self.desc(st["o"][1]) if len(st["o"]) > 1 else ""
                    g["text"] = "%s %s %s" % (g["l"], st["op"], g["r"])
                elif root[0] == "call":
                    c = root[1]
                    g["call"] = c
                    g["text"] = "%s(%s)" % (c["callee"], ",".join(self.desc(a) for a in c["args"][:3]))
                elif root[0] == "discr":
                    g["text"] = "discr(%s)" % self.desc(root[1]["o"][0])
                    g["of"] = root[1]["o"][0]
                else:
                    g["text"] = self.desc(t["discr"])
                out.append(g)
        return out
