"""R-ARITH: panicking integer arithmetic sites in MIR (operator-trait calls on integers, overflow / div asserts,
panicking std integer APIs)."""
from .mir import Body, op_place, place_str

INT_TYPES = {"i64", "i32", "u64", "u32", "i128", "u128", "i8", "i16", "u8", "u16"}
OPS = {"Add": "add", "Sub": "sub", "Mul": "mul", "Div": "div", "Rem": "rem", "Neg": "neg", "Shl": "shl", "Shr": "shr",
       "AddAssign": "add_assign", "SubAssign": "sub_assign", "MulAssign": "mul_assign", "DivAssign": "div_assign", "RemAssign": "rem_assign"}
PANICKY_INT_API = ("::abs", "::pow", "::div_euclid", "::rem_euclid", "::next_power_of_two", "::isqrt", "::ilog", "::ilog2", "::ilog10")


def base_ty(t):
    t = t.strip()
    while t.startswith("&"):
        t = t[1:].strip()
        if t.startswith("mut "):
            t = t[4:]
    return t


def operand_desc(body, op, depth=0):
    """describe an operand by chasing single-definition temporaries: variable name, cast(..), call:<fn>, const"""
    pl = op_place(op)
    if pl is not None:
        l = pl["l"]
        nm = body.local_name(l)
        if nm:
            return nm
        ds = body.defs.get(l, [])
        if len(ds) == 1 and depth < 6:
            d = ds[0]
            if d[0] == "call":
                return "call:" + d[2]["callee"].rsplit("::", 1)[-1]
            s = d[3]
            if s["k"] in ("use", "ref") and s["o"]:
                return operand_desc(body, s["o"][0], depth + 1)
            if s["k"] == "cast" and s["o"]:
                return "cast(%s)" % operand_desc(body, s["o"][0], depth + 1)
            if s["k"] in ("binop", "unop"):
                return s.get("op", "op").lower()
        return "tmp"
    k = op.get("k")
    if k:
        return "const"
    return "?"


def sites(body: Body, types=INT_TYPES):
    """yield dicts: kind(call|assert|api), op, types, bb, sp, exp, operands(desc)"""
    out = []
    for bb in sorted(body.live):
        t = body.term(bb)
        if t["k"] == "call":
            c = t["callee"]
            if c.startswith("core::ops::arith::") or c.startswith("core::ops::bit::Sh"):
                tr = c.split("::")[3]
                if tr in OPS and t["atys"]:
                    tys = [base_ty(x) for x in t["atys"]]
                    if tys[0] in types:
                        out.append({"kind": "call", "op": tr, "ty": tys[0], "bb": bb, "sp": t["sp"], "exp": t["exp"],
                                    "operands": [operand_desc(body, a) for a in t["args"]], "term": t})
            elif c.startswith("core::num::<impl ") and c.endswith(PANICKY_INT_API):
                ty = c[len("core::num::<impl "):].split(">")[0]
                if ty in types:
                    out.append({"kind": "api", "op": c.rsplit("::", 1)[1], "ty": ty, "bb": bb, "sp": t["sp"], "exp": t["exp"],
                                "operands": [operand_desc(body, a) for a in t["args"]], "term": t})
        elif t["k"] == "assert":
            m = t["msg"]
            if m.startswith("Overflow(") or m in ("OverflowNeg", "DivisionByZero", "RemainderByZero"):
                # operand type: from the binop statement feeding the assert condition
                ty = None
                for s in reversed(body.stmts(bb)):
                    if s["k"] in ("binop", "unop") and s.get("lty"):
                        ty = base_ty(s["lty"])
                        break
                if ty in types:
                    out.append({"kind": "assert", "op": m, "ty": ty, "bb": bb, "sp": t["sp"], "exp": t["exp"],
                                "operands": [operand_desc(body, a) for a in t["ops"]], "term": t})
    return out
