"""HIR tree helpers: walking, pretty printing to a normalised Rust-like text, pattern tables."""


def children(e):
    """direct sub-expressions of an expression node (blocks flattened into statements)"""
    if e is None:
        return
    k = e.get("k")
    if k == "block":
        for s in e["stmts"]:
            if s["k"] == "let":
                if s["init"] is not None:
                    yield s["init"]
                if s["else"] is not None:
                    yield s["else"]
            elif s["k"] == "expr":
                yield s["e"]
        if e["tail"] is not None:
            yield e["tail"]
    elif k == "match":
        yield e["scrut"]
        for a in e["arms"]:
            if a["guard"] is not None:
                yield a["guard"]
            yield a["body"]
    elif k == "if":
        yield e["cond"]
        yield e["then"]
        if e["else"] is not None:
            yield e["else"]
    elif k == "letcond":
        yield e["init"]
    elif k == "call":
        if isinstance(e["callee"], dict):
            yield e["callee"]
        for a in e["args"]:
            yield a
    elif k == "mcall":
        yield e["recv"]
        for a in e["args"]:
            yield a
    elif k in ("bin", "assign"):
        yield e["l"]
        yield e["r"]
    elif k in ("un", "field", "ref", "cast", "await", "try", "yield"):
        yield e["e"]
    elif k == "index":
        yield e["e"]
        yield e["i"]
    elif k == "struct":
        for f in e["fields"]:
            yield f["e"]
        if e["base"] is not None:
            yield e["base"]
    elif k == "closure":
        yield e["body"]
    elif k in ("ret", "break"):
        if e["e"] is not None:
            yield e["e"]
    elif k == "loop":
        yield e["body"]
    elif k == "for":
        yield e["iter"]
        yield e["body"]
    elif k in ("tuple", "array"):
        for a in e["es"]:
            yield a


def walk(e, into_closures=True):
    """pre-order traversal of all expression nodes"""
    st = [e]
    while st:
        x = st.pop()
        if x is None:
            continue
        yield x
        if x.get("k") == "closure" and not into_closures:
            continue
        cs = list(children(x))
        st.extend(reversed(cs))


def find(e, pred, into_closures=True):
    return [x for x in walk(e, into_closures) if pred(x)]


def lets(e):
    """all let statements (dict) inside e, pre-order"""
    out = []
    for x in walk(e):
        if x.get("k") == "block":
            for s in x["stmts"]:
                if s["k"] == "let":
                    out.append(s)
    return out


def strip(e):
    """peel blocks with only a tail, refs, derefs, casts-free wrappers"""
    while e is not None:
        k = e.get("k")
        if k == "block" and not e["stmts"] and e["tail"] is not None:
            e = e["tail"]
        elif k == "ref":
            e = e["e"]
        elif k == "un" and e["op"] == "Deref":
            e = e["e"]
        else:
            break
    return e


def local_name(e):
    """plain variable name of a local path expression (the unique binding id is dropped)"""
    e = strip(e)
    if e and e.get("k") == "path" and e["res"].startswith("local:"):
        return e["res"][6:].split("#", 1)[0]
    return None


def local_key(e):
    """unique key `name#bindingid` of a local path expression (distinguishes shadowed bindings)"""
    e = strip(e)
    if e and e.get("k") == "path" and e["res"].startswith("local:"):
        return e["res"][6:]
    return None


def bind_key(p):
    """unique key of a binding pattern, matching local_key of its uses"""
    return "%s#%s" % (p["name"], p.get("id", ""))


def short(path):
    """last two segments of a def path"""
    parts = path.split("::")
    return "::".join(parts[-2:]) if len(parts) >= 2 else path


def pat_str(p):
    if p is None:
        return "_"
    k = p["k"]
    if k == "wild":
        return "_"
    if k == "bind":
        return p["name"] + ("@" + pat_str(p["sub"]) if p["sub"] else "")
    if k == "variant":
        nm = short(p["path"].split(":", 1)[1])
        if "fields" in p:
            return nm + "{" + ",".join("%s:%s" % (f, pat_str(v)) for f, v in p["fields"].items()) + "}"
        if p["sub"]:
            return nm + "(" + ",".join(pat_str(s) for s in p["sub"]) + ")"
        return nm
    if k == "tuple":
        return "(" + ",".join(pat_str(s) for s in p["sub"]) + ")"
    if k == "lit":
        return lit_str(p["v"])
    if k == "or":
        return "|".join(pat_str(a) for a in p["alts"])
    if k == "ref":
        return "&" + pat_str(p["sub"])
    return "<%s>" % k


def lit_str(v):
    if v["t"] == "str":
        return '"%s"' % v["v"]
    if v["t"] == "char":
        return "'%s'" % v["v"]
    return str(v["v"])


BINOPS = {
    "Add": "+", "Sub": "-", "Mul": "*", "Div": "/", "Rem": "%", "And": "&&", "Or": "||", "BitXor": "^",
    "BitAnd": "&", "BitOr": "|", "Shl": "<<", "Shr": ">>", "Eq": "==", "Lt": "<", "Le": "<=", "Ne": "!=",
    "Ge": ">=", "Gt": ">",
}


def show(e, depth=0, maxdepth=12):
    """normalised text of an expression: refs/derefs/blocks-with-tail dropped, paths shortened"""
    if e is None:
        return ""
    if depth > maxdepth:
        return "…"
    k = e.get("k")
    d = depth + 1
    if k == "block":
        parts = []
        for s in e["stmts"]:
            if s["k"] == "let":
                parts.append("let %s = %s" % (pat_str(s["pat"]), show(s["init"], d)))
            elif s["k"] == "expr":
                parts.append(show(s["e"], d))
        if e["tail"] is not None:
            parts.append(show(e["tail"], d))
        if len(parts) == 1:
            return parts[0]
        return "{ " + "; ".join(parts) + " }"
    if k == "path":
        r = e["res"]
        kind, _, p = r.partition(":")
        return p.split("#", 1)[0] if kind == "local" else short(p)
    if k == "lit":
        return lit_str(e["v"])
    if k == "bin":
        return "(%s %s %s)" % (show(e["l"], d), BINOPS.get(e["op"], e["op"]), show(e["r"], d))
    if k == "un":
        if e["op"] == "Deref":
            return show(e["e"], d)
        return ("!" if e["op"] == "Not" else "-") + show(e["e"], d)
    if k == "ref":
        return show(e["e"], d)
    if k == "call":
        c = e["callee"]
        cs = short(c.split(":", 1)[1]) if isinstance(c, str) else show(c, d)
        return "%s(%s)" % (cs, ", ".join(show(a, d) for a in e["args"]))
    if k == "mcall":
        return "%s.%s(%s)" % (show(e["recv"], d), e["method"], ", ".join(show(a, d) for a in e["args"]))
    if k == "field":
        return "%s.%s" % (show(e["e"], d), e["name"])
    if k == "index":
        return "%s[%s]" % (show(e["e"], d), show(e["i"], d))
    if k == "if":
        s = "if %s { %s }" % (show(e["cond"], d), show(e["then"], d))
        if e["else"] is not None:
            s += " else { %s }" % show(e["else"], d)
        return s
    if k == "letcond":
        return "let %s = %s" % (pat_str(e["pat"]), show(e["init"], d))
    if k == "match":
        return "match %s { %s }" % (
            show(e["scrut"], d),
            ", ".join(
                "%s%s => %s" % (pat_str(a["pat"]), (" if " + show(a["guard"], d)) if a["guard"] else "", show(a["body"], d))
                for a in e["arms"]
            ),
        )
    if k == "assign":
        return "%s %s= %s" % (show(e["l"], d), BINOPS.get(e["op"], "") if e["op"] else "", show(e["r"], d))
    if k == "struct":
        return "%s{%s}" % (short(e["adt"]), ", ".join("%s: %s" % (f["n"], show(f["e"], d)) for f in e["fields"]))
    if k == "closure":
        return "|%s| %s" % (",".join(pat_str(p) for p in e["params"]), show(e["body"], d))
    if k == "ret":
        return "return %s" % show(e["e"], d)
    if k == "break":
        return "break %s" % show(e["e"], d)
    if k == "continue":
        return "continue"
    if k == "loop":
        return "loop %s" % show(e["body"], d)
    if k == "for":
        return "for %s in %s { %s }" % (pat_str(e["pat"]), show(e["iter"], d), show(e["body"], d))
    if k == "cast":
        return "(%s as %s)" % (show(e["e"], d), e["ty"])
    if k == "tuple":
        return "(" + ", ".join(show(a, d) for a in e["es"]) + ")"
    if k == "array":
        return "[" + ", ".join(show(a, d) for a in e["es"]) + "]"
    if k == "await":
        return show(e["e"], d) + ".await"
    if k == "try":
        return show(e["e"], d) + "?"
    return "<%s>" % k


# ------------------------------------------------------------------ patterns


def pat_alts(p):
    """expand or-patterns at the top and inside tuples: list of patterns without top-level `or`"""
    if p["k"] == "or":
        out = []
        for a in p["alts"]:
            out.extend(pat_alts(a))
        return out
    if p["k"] == "ref":
        return pat_alts(p["sub"])
    if p["k"] == "tuple":
        combos = [[]]
        for s in p["sub"]:
            alts = pat_alts(s)
            combos = [c + [a] for c in combos for a in alts]
        return [{"k": "tuple", "sub": c} for c in combos]
    if p["k"] == "bind" and p["sub"] is not None:
        return pat_alts(p["sub"])
    return [p]


def pat_head(p):
    """variant path of a pattern ('*' for wildcard/binding, literal text for literals)"""
    while p["k"] == "ref" or (p["k"] == "bind" and p["sub"] is not None):
        p = p["sub"]
    if p["k"] in ("wild", "bind"):
        return "*"
    if p["k"] == "variant":
        return p["path"].split(":", 1)[1]
    if p["k"] == "lit":
        return "lit:" + lit_str(p["v"])
    if p["k"] == "tuple":
        return tuple(pat_head(s) for s in p["sub"])
    return "?" + p["k"]


def pat_sub(p, i=0):
    while p["k"] == "ref" or (p["k"] == "bind" and p["sub"] is not None):
        p = p["sub"]
    if p["k"] == "variant" and "sub" in p and len(p["sub"]) > i:
        return p["sub"][i]
    return None


def pat_binds(p, out=None):
    """names bound by a pattern"""
    if out is None:
        out = []
    if p is None:
        return out
    k = p["k"]
    if k == "bind":
        out.append(p["name"])
        pat_binds(p["sub"], out)
    elif k == "variant":
        if "fields" in p:
            for v in p["fields"].values():
                pat_binds(v, out)
        else:
            for s in p["sub"]:
                pat_binds(s, out)
    elif k == "tuple":
        for s in p["sub"]:
            pat_binds(s, out)
    elif k == "or":
        for a in p["alts"]:
            pat_binds(a, out)
    elif k == "ref":
        pat_binds(p["sub"], out)
    elif k == "slice":
        for s in p["before"] + p["after"]:
            pat_binds(s, out)
        pat_binds(p["mid"], out)
    return out


def pat_bind_keys(p, out=None):
    """unique keys (name#id) bound by a pattern"""
    if out is None:
        out = []
    if p is None:
        return out
    k = p["k"]
    if k == "bind":
        out.append(bind_key(p))
        pat_bind_keys(p["sub"], out)
    elif k == "variant":
        if "fields" in p:
            for v in p["fields"].values():
                pat_bind_keys(v, out)
        else:
            for s in p["sub"]:
                pat_bind_keys(s, out)
    elif k == "tuple":
        for s in p["sub"]:
            pat_bind_keys(s, out)
    elif k == "or":
        for a in p["alts"]:
            pat_bind_keys(a, out)
    elif k == "ref":
        pat_bind_keys(p["sub"], out)
    elif k == "slice":
        for s in p["before"] + p["after"]:
            pat_bind_keys(s, out)
        pat_bind_keys(p["mid"], out)
    return out


def matches_on(e, ty_pred):
    """all `match` nodes (source Normal) in e whose scrutinee type satisfies ty_pred"""
    return [x for x in walk(e) if x.get("k") == "match" and x.get("src") == "Normal" and ty_pred(x["ty"])]


def arm_rows(m):
    """[(head, arm)] with or-patterns expanded"""
    rows = []
    for a in m["arms"]:
        for p in pat_alts(a["pat"]):
            rows.append((pat_head(p), p, a))
    return rows


def uses_local(e, name):
    for x in walk(e):
        if x.get("k") == "path" and x["res"].startswith("local:") and x["res"][6:].split("#", 1)[0] == name:
            return True
    return False


def calls_in(e):
    """[(def path, node)] for calls and method calls with a resolved target"""
    out = []
    for x in walk(e):
        if x.get("k") == "mcall" and x["def"]:
            out.append((x["def"], x))
        elif x.get("k") == "call" and isinstance(x["callee"], str):
            out.append((x["callee"].split(":", 1)[1], x))
    return out


def line_of(e):
    sp = e.get("sp", "")
    return sp
