"""Symmetry of serde field attributes on the types reachable from a serialised root: what the derived Serialize writes, the
derived Deserialize must be able to read back (attributes are recovered by the extractor from the source text of the field)."""
import re


def reachable(F, root, prefix="varpulis_"):
    seen = []
    work = [root]
    while work:
        p = work.pop()
        if p in seen:
            continue
        it = F.struct(p)
        if not it:
            continue
        seen.append(p)
        for v in it["variants"]:
            for f in v["fields"]:
                for name in re.findall(r"%s[A-Za-z0-9_:]+" % prefix, f["ty"]):
                    if name not in seen:
                        work.append(name)
    return seen


def check(ctx, rule, roots, floor_fields, cfg="default"):
    F = ctx.facts(cfg)
    n = 0
    adts = []
    for r in roots:
        if F.struct(r) is None:
            ctx.anchor_lost(rule, "serialised root type %s not found" % r)
            continue
        for a in reachable(F, r):
            if a not in adts:
                adts.append(a)
    for a in adts:
        it = F.struct(a)
        for v in it["variants"]:
            for f in v["fields"]:
                n += 1
                toks = set(" ".join(f.get("attrs", [])).split())
                if not toks:
                    continue
                short = a.rsplit("::", 1)[1] + ("::" + v["n"] if it["k"] == "enum" else "")
                key = "%s.%s" % (short, f["n"])
                # serde's derived Deserialize reads a missing field of type Option<T> as None: such a field needs no `default`
                is_option = f["ty"].startswith("core::option::Option<")
                if ("skip_serializing_if" in toks or "skip_serializing" in toks) and "default" not in toks and not is_option:
                    ctx.violation(rule, key + ":skip-without-default", "%s.%s is omitted from the output under a condition (skip_serializing%s) but has no #[serde(default)]: a value serialised without the field cannot be deserialised (`missing field`), so a checkpoint holding such a value cannot be read back" % (
                        short, f["n"], "_if" if "skip_serializing_if" in toks else ""))
                elif "skip" in toks or "skip_deserializing" in toks and "skip_serializing" not in toks:
                    ctx.violation(rule, key + ":skipped", "%s.%s is excluded from (de)serialisation: that part of the state does not survive the round trip" % (short, f["n"]))
                elif ("serialize_with" in toks) != ("deserialize_with" in toks) and "with" not in toks:
                    ctx.violation(rule, key + ":one-sided-codec", "%s.%s has a custom codec for one direction only" % (short, f["n"]))
                else:
                    ctx.ok(rule, key, "attributes %s are symmetric" % sorted(toks - {"serde"}))
    ctx.floor(rule, "fields of serialised types scanned for serde attributes", n, floor_fields)
    ctx.sample({"serialised_types": [a.rsplit("::", 1)[1] for a in adts][:30], "fields_scanned": n})
