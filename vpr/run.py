"""Check runner: rule context, known-findings subtraction, evidence, violation files."""
import importlib
import json
import os
import sys
import time
import traceback

from . import extract
from .callgraph import CallGraph
from .facts import Facts
from .mir import Body

VERIF = extract.VERIF


class AnchorLost(Exception):
    pass


class Ctx:
    def __init__(self, pid, tier="quick", fact_dirs=None):
        self.pid = pid
        self.tier = tier
        self._facts = {}
        self._cg = {}
        self._bodies = {}
        self.fact_dirs = fact_dirs or {}
        self.obligations = []  # dicts: rule, key, status(ok|violation|anchor), msg, site
        self.samples = []
        self.sites = 0
        self.nontrivial = set()
        self.notes = []
        self.decided = []
        self.not_decided = []
        self.cfgs_used = set()

    # ------------------------------------------------------------ facts
    def facts(self, cfg="default"):
        if cfg not in self._facts:
            self._facts[cfg] = Facts(cfg, self.fact_dirs.get(cfg))
            self.cfgs_used.add(cfg)
        return self._facts[cfg]

    def cg(self, cfg="default"):
        if cfg not in self._cg:
            self._cg[cfg] = CallGraph(self.facts(cfg))
        return self._cg[cfg]

    def body(self, path, cfg="default"):
        key = (cfg, path)
        if key not in self._bodies:
            js = self.facts(cfg).mir(path)
            self._bodies[key] = Body(js) if js else None
        return self._bodies[key]

    def need_body(self, path, cfg="default", rule="anchor"):
        b = self.body(path, cfg)
        if b is None:
            self.anchor_lost(rule, "function %s not found (cfg %s)" % (path, cfg))
            raise AnchorLost(path)
        return b

    def need_hir(self, path, cfg="default", rule="anchor"):
        h = self.facts(cfg).hir(path)
        if h is None:
            self.anchor_lost(rule, "function %s not found (cfg %s)" % (path, cfg))
            raise AnchorLost(path)
        return h

    # ------------------------------------------------------------ results
    def ok(self, rule, key, msg="", site=None, nontrivial=True):
        self.obligations.append({"rule": rule, "key": key, "status": "ok", "msg": msg, "site": site})
        self.sites += 1
        if nontrivial:
            self.nontrivial.add((rule, key))

    def violation(self, rule, key, msg, site=None, path=None):
        self.obligations.append({"rule": rule, "key": key, "status": "violation", "msg": msg, "site": site, "path": path})
        self.sites += 1
        self.nontrivial.add((rule, key))

    def anchor_lost(self, rule, what):
        self.obligations.append({"rule": rule, "key": "anchor:" + what, "status": "anchor", "msg": what, "site": None})

    def floor(self, rule, what, found, minimum):
        """a rule instance must find at least `minimum` sites; fewer = anchor lost (fail closed)"""
        if found < minimum:
            self.anchor_lost(rule, "%s: found %d, expected at least %d" % (what, found, minimum))
            return False
        return True

    def sample(self, obj):
        if len(self.samples) < 40:
            self.samples.append(obj)

    def note(self, s):
        self.notes.append(s)

    def guard(self, rule, fn):
        """run one rule instance; an unexpected shape (exception) fails closed as anchor-lost"""
        try:
            fn()
        except AnchorLost:
            pass
        except Exception as e:  # unrecognised shape
            tb = traceback.format_exc().strip().splitlines()
            self.anchor_lost(rule, "unrecognised shape: %s (%s)" % (e, tb[-3].strip() if len(tb) >= 3 else ""))


def load_known():
    p = os.path.join(VERIF, "known_findings.json")
    if not os.path.exists(p):
        return []
    return json.load(open(p))


def run_property(pid, tier="quick", replay=None, fact_dirs=None, quiet=False, write_evidence=True):
    """returns (exit_code, ctx, unexpected violations)"""
    t0 = time.time()
    ctx = Ctx(pid, tier, fact_dirs)

    class _Broken:  # a rule module that does not even import: fail closed with a report instead of a traceback
        EXPLANATION, DECIDED, NOT_DECIDED = "rule module failed to load", [], []

        def __init__(self, err):
            self.err = err

        def run(self, c):
            c.anchor_lost("runner", "rule module rules/%s.py failed to load: %s" % (pid, self.err))
    try:
        mod = importlib.import_module("rules." + pid)
    except Exception as e:
        mod = _Broken("%s: %s" % (type(e).__name__, e))
    try:
        mod.run(ctx)
    except AnchorLost:
        pass
    except Exception as e:  # a rule crashed on an unexpected shape: fail closed with a diagnosable report, not a traceback
        tb = traceback.format_exc().strip().splitlines()
        ctx.anchor_lost("runner", "rule module crashed: %s (%s)" % (e, " | ".join(x.strip() for x in tb[-4:-1])))
    known = [k for k in load_known() if k["property"] == pid]
    known_keys = {k["key"]: k for k in known if k["status"] == "known"}
    out_lines = []
    unexpected = []
    seen_known = set()
    for o in ctx.obligations:
        if o["status"] == "ok":
            continue
        full = "%s:%s" % (o["rule"], o["key"])
        if o["status"] == "violation" and full in known_keys:
            if full not in seen_known:
                seen_known.add(full)
                out_lines.append("KNOWN-FINDING: property=%s %s — %s" % (pid, full, known_keys[full]["what"]))
            continue
        unexpected.append(o)
    if replay:
        want = json.load(open(replay)).get("key")
        unexpected = [o for o in unexpected if "%s:%s" % (o["rule"], o["key"]) == want]
    # runs against a scratch tree (sensitivity suite, tools/try_seed.sh) keep their replay files apart from /repo's
    vdir = os.path.join(VERIF, "out", "violations" + ("-" + os.environ["VERIF_TAG"] if os.environ.get("VERIF_TAG") else ""))
    os.makedirs(vdir, exist_ok=True)
    for i, o in enumerate(unexpected):
        full = "%s:%s" % (o["rule"], o["key"])
        vf = os.path.join(vdir, "%s-%d.json" % (pid, i))
        with open(vf, "w") as fh:
            json.dump({"property": pid, "key": full, "status": o["status"], "rule": o["rule"], "message": o["msg"],
                       "site": o.get("site"), "path": o.get("path")}, fh, indent=1)
        kind = "anchor lost / unrecognised shape" if o["status"] == "anchor" else "violation"
        out_lines.append("  %s [%s] %s\n    at %s\n    %s" % (kind, full, "", o.get("site") or "-", o["msg"]))
        out_lines.append("VIOLATION property=%s replay=%s" % (pid, vf))
    # known findings that no longer fire are worth a note (not an error)
    for k in known_keys:
        if k not in seen_known:
            out_lines.append("note: known finding no longer reported: %s" % k)
    wall = time.time() - t0
    n_obl = len(ctx.obligations)
    n_ok = sum(1 for o in ctx.obligations if o["status"] == "ok")
    if write_evidence:
        ev = {
            "property_id": pid,
            "tier": tier,
            "seed": int(os.environ.get("VERIF_SEED", "0") or 0),
            "level": "other",
            "coverage": {
                "explanation": getattr(mod, "EXPLANATION", "static rules over rustc HIR/MIR facts of /repo's working tree"),
                "rule": "one obligation per rule instance (site, arm, field, path); non-trivial = the instance exercised the rule's test "
                        "(a site was found and examined), distinct by (rule, instance key)",
                "obligations": n_obl,
                "discharged": n_ok,
                "evaluations": max(ctx.sites, 1),
                "distinct_nontrivial": len(ctx.nontrivial),
                "samples": ctx.samples[:40] or [{"note": "no sample recorded"}],
                "known_findings_reported": sorted(seen_known),
                "unexpected": ["%s:%s" % (o["rule"], o["key"]) for o in unexpected],
                "clauses_decided": getattr(mod, "DECIDED", []),
                "clauses_not_decided": getattr(mod, "NOT_DECIDED", []),
                "configurations": sorted(ctx.cfgs_used),
                "facts": {c: {"targets": len(f.targets), "bodies": sum(m["captured"] for m in f.meta.values())}
                          for c, f in ctx._facts.items()},
                "notes": ctx.notes[:30],
                "checker_cmd": "./check %s --tier %s" % (pid, tier),
                "trusted_base": ["rustc nightly front end (HIR, typeck, MIR build)", "vpx extractor", "vpr analyses and the idiom tables in rules/%s.py" % pid],
                "exhaustive": True,
            },
            "assumptions": getattr(mod, "ASSUMPTIONS", [
                "the rules decide necessary structural conditions of the property, not the behaviour itself"]),
            "wall_s": round(wall, 3),
            "violations": len(unexpected),
        }
        os.makedirs(os.path.join(VERIF, "evidence"), exist_ok=True)
        with open(os.path.join(VERIF, "evidence", pid + ".json"), "w") as fh:
            json.dump(ev, fh, indent=1)
    if not quiet:
        print("%s: %d obligations, %d hold, %d known findings, %d unexpected (%.1fs)" % (
            pid, n_obl, n_ok, len(seen_known), len(unexpected), wall))
        for l in out_lines:
            print(l)
    return (1 if unexpected else 0), ctx, unexpected


def main(argv):
    import argparse
    ap = argparse.ArgumentParser()
    ap.add_argument("pid")
    ap.add_argument("--tier", default=os.environ.get("VERIF_TIER", "quick"))
    ap.add_argument("--replay")
    a = ap.parse_args(argv)
    sys.path.insert(0, VERIF)
    # runs against a scratch tree (VERIF_TAG set by tools/try_seed.sh) must not overwrite the evidence of /repo
    code, ctx, _ = run_property(a.pid, a.tier, a.replay, write_evidence=not os.environ.get("VERIF_TAG"))
    if a.tier == "thorough":
        try:
            from . import thorough
            code2 = thorough.run(a.pid, ctx)
            code = code or code2
        except ImportError:
            pass
    return code
