"""`format!` call sites in type-checked HIR: decoded template pieces and argument expressions."""
import re

from . import hirq as H


def decode_template(lit):
    """compact format template (rustc >= 1.9x): 0xC0 = placeholder, n (<0x80) = literal of n bytes follows, 0 = end"""
    m = re.match(r"ByteStr\(\[([0-9, ]*)\]", lit)
    if not m:
        return None
    bs = [int(x) for x in m.group(1).split(",") if x.strip()]
    out = []
    i = 0
    while i < len(bs):
        b = bs[i]
        if b == 0:
            return out if i == len(bs) - 1 else None
        if b == 0xC0:
            out.append(None)
            i += 1
        elif b < 0x80:
            if i + 1 + b > len(bs):
                return None
            try:
                out.append(bytes(bs[i + 1:i + 1 + b]).decode("utf-8"))
            except UnicodeDecodeError:
                return None
            i += 1 + b
        else:
            return None
    return None


def format_call(fcall):
    """for a HIR `call` node of alloc::fmt::format: (pieces, arg exprs) or None when the desugaring is not recognised;
    pieces is a list of literal strings and None for placeholders"""
    if not (fcall.get("k") == "call" and isinstance(fcall.get("callee"), str) and fcall["callee"].endswith("alloc::fmt::format")):
        return None
    tnode = None
    arg_exprs = []
    for y in H.walk(fcall["args"][0]):
        if y.get("k") == "call" and isinstance(y["callee"], str):
            if y["callee"].endswith("fmt::Arguments::<'a>::new") and len(y["args"]) == 2:
                tnode = y
            elif "fmt::rt::Argument" in y["callee"] and "::new_" in y["callee"]:
                arg_exprs.append(y["args"][0])
    if tnode is None:
        return None
    tuples = {s_["pat"]["name"]: H.strip(s_["init"]) for s_ in H.lets(fcall["args"][0])
              if s_["pat"]["k"] == "bind" and s_["init"] is not None and H.strip(s_["init"]).get("k") == "tuple"}
    resolved = []
    for a in arg_exprs:
        a_ = H.strip(a)
        if a_.get("k") == "field" and a_["name"].isdigit() and H.local_name(a_["e"]) in tuples:
            es = tuples[H.local_name(a_["e"])]["es"]
            if int(a_["name"]) < len(es):
                a_ = H.strip(es[int(a_["name"])])
        resolved.append(a_)
    lit = H.strip(tnode["args"][0])
    if lit.get("k") != "lit":
        return None
    tpl = decode_template(lit["v"]["v"])
    if tpl is None or sum(1 for p in tpl if p is None) != len(resolved):
        return None
    return tpl, resolved
