"""Fact base access (lazy, indexed)."""
import glob
import json
import os
import re
from collections import defaultdict

from . import extract


def root_fn(path):
    """`a::b::{closure#0}::{closure#1}` -> `a::b` (closures / async blocks belong to their creator)."""
    i = path.find("::{closure#")
    j = path.find("::{constant#")
    for k in (i, j):
        if k >= 0:
            path = path[:k]
    return path


class Facts:
    def __init__(self, cfg="default", fdir=None):
        self.cfg = cfg
        self.dir = fdir or extract.ensure(cfg)
        self.targets = sorted(os.path.basename(p)[: -len(".meta.json")] for p in glob.glob(os.path.join(self.dir, "*.meta.json")))
        self._idx = {"mir": None, "hir": None}
        self._cache = {"mir": {}, "hir": {}}
        self._calls = None
        self._calls_by_caller = None
        self._calls_by_callee = None
        self._fieldacc = None
        self._items = None
        self._impls = None
        self.meta = {t: json.load(open(os.path.join(self.dir, t + ".meta.json"))) for t in self.targets}

    # ---------------------------------------------------------------- bodies
    def _index(self, kind):
        if self._idx[kind] is None:
            idx = {}
            for t in self.targets:
                p = os.path.join(self.dir, "%s.%s.jsonl.idx" % (t, kind))
                if not os.path.exists(p):
                    continue
                with open(p) as fh:
                    for line in fh:
                        k, off, ln = line.rstrip("\n").rsplit("\t", 2)
                        idx[k] = (t, int(off), int(ln))
            self._idx[kind] = idx
        return self._idx[kind]

    def _load(self, kind, path):
        c = self._cache[kind]
        if path in c:
            return c[path]
        ent = self._index(kind).get(path)
        if ent is None:
            c[path] = None
            return None
        t, off, ln = ent
        with open(os.path.join(self.dir, "%s.%s.jsonl" % (t, kind)), "rb") as fh:
            fh.seek(off)
            obj = json.loads(fh.read(ln))
        c[path] = obj
        return obj

    def mir(self, path):
        return self._load("mir", path)

    def hir(self, path):
        return self._load("hir", path)

    def mir_paths(self):
        return list(self._index("mir").keys())

    def hir_paths(self):
        return list(self._index("hir").keys())

    def find_fns(self, pattern, kind="mir"):
        """All body paths matching a regex (search)."""
        rx = re.compile(pattern)
        return sorted(p for p in self._index(kind).keys() if rx.search(p))

    def closures_of(self, path):
        pre = path + "::{closure#"
        return sorted(p for p in self._index("mir").keys() if p.startswith(pre))

    def bodies_of(self, path):
        """The function body and all closure / async bodies nested in it (MIR)."""
        return [path] + self.closures_of(path)

    # ---------------------------------------------------------------- flat indexes
    def _load_flat(self, suffix):
        rows = []
        for t in self.targets:
            p = os.path.join(self.dir, "%s.%s.jsonl" % (t, suffix))
            if os.path.exists(p):
                with open(p) as fh:
                    for line in fh:
                        rows.append(json.loads(line))
        return rows

    @property
    def calls(self):
        if self._calls is None:
            self._calls = self._load_flat("calls")
            a = defaultdict(list)
            b = defaultdict(list)
            for c in self._calls:
                a[c["f"]].append(c)
                b[c["callee"]].append(c)
                if c["inst"] and c["inst"] != c["callee"]:
                    b[c["inst"]].append(c)
            self._calls_by_caller = a
            self._calls_by_callee = b
        return self._calls

    def calls_from(self, path, nested=True):
        self.calls
        out = list(self._calls_by_caller.get(path, []))
        if nested:
            for c in self.closures_of(path):
                out.extend(self._calls_by_caller.get(c, []))
        return out

    def calls_to(self, callee):
        self.calls
        return self._calls_by_callee.get(callee, [])

    def calls_to_matching(self, pattern):
        self.calls
        rx = re.compile(pattern)
        out = []
        for k, v in self._calls_by_callee.items():
            if rx.search(k):
                out.extend(v)
        # de-duplicate (a call is filed under callee and inst)
        seen = set()
        res = []
        for c in out:
            key = (c["f"], c["bb"])
            if key not in seen:
                seen.add(key)
                res.append(c)
        return res

    @property
    def fieldacc(self):
        if self._fieldacc is None:
            self._fieldacc = self._load_flat("fieldacc")
        return self._fieldacc

    def field_accessors(self, adt, field, kinds=("w", "m", "wt", "mt")):
        """functions (root functions, closures folded in) accessing adt.field with one of `kinds`."""
        out = defaultdict(list)
        for r in self.fieldacc:
            if r["adt"] == adt and r["field"] == field and r["k"] in kinds:
                out[root_fn(r["f"])].append(r)
        return out

    @property
    def items(self):
        if self._items is None:
            self._items = {}
            for r in self._load_flat("items"):
                self._items[r["path"]] = r
        return self._items

    def struct(self, path):
        it = self.items.get(path)
        return it if it and it["k"] in ("struct", "enum") else None

    def fields(self, path):
        it = self.struct(path)
        if not it or it["k"] != "struct":
            return None
        return it["variants"][0]["fields"]

    def variants(self, path):
        it = self.struct(path)
        if not it:
            return None
        return [v["n"] for v in it["variants"]]

    def fn_item(self, path):
        it = self.items.get(path)
        return it if it and it["k"] == "fn" else None

    @property
    def impls(self):
        """trait method def-path -> list of implementing fn paths"""
        if self._impls is None:
            m = defaultdict(list)
            for p, it in self.items.items():
                if it["k"] == "fn" and it.get("trait_item"):
                    m[it["trait_item"]].append(p)
            self._impls = m
        return self._impls
