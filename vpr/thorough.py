"""Thorough tier: the quick rule instances (already run by the caller) plus the sensitivity suite.

For every confirmed seeded defect under /verif/seeded whose property is the one being checked, the CURRENT working tree of
/repo is copied to a scratch directory outside /repo and /verif, the seed's patch is applied, the facts are re-extracted
from that copy and the same rule module is run on it.  The rule must report a violation on the patched copy (the seed is
"reported").  The copy, its facts and its replay files are removed straight afterwards.

A seed that is not reported is a weakness of the checker, not a violation by varpulis: the suite never prints a VIOLATION
line and never changes the exit code; its outcome is recorded in the evidence file (coverage.sensitivity).  A patch that no
longer applies to the current tree is recorded as such.
"""
import glob
import json
import os
import re
import shutil
import subprocess
import sys
import tempfile
import time

VERIF = os.path.dirname(os.path.dirname(os.path.abspath(__file__)))
REPO = os.environ.get("VERIF_REPO", "/repo")


def seeds_for(pid):
    out = []
    for mf in sorted(glob.glob(os.path.join(VERIF, "seeded", "*", "meta.json"))):
        try:
            m = json.load(open(mf))
        except Exception:
            continue
        if m.get("property") == pid:
            out.append((os.path.dirname(mf), m))
    return out


def copy_tree(dst):
    # the working tree as it is now (not HEAD): sources, manifests, lock file; no build output, no VCS data
    subprocess.run(["rsync", "-a", "--exclude", "/target", "--exclude", ".git", "--exclude", "target/", REPO.rstrip("/") + "/", dst + "/"], check=True)


def run(pid, ctx):
    if os.environ.get("VERIF_TAG"):
        return 0  # already inside a scratch run
    seeds = seeds_for(pid)
    results = []
    t0 = time.time()
    base = os.environ.get("VERIF_SCRATCH", "/var/tmp")
    for sdir, meta in seeds:
        name = os.path.basename(sdir)
        tag = "sens-%s-%d" % (pid, os.getpid())
        scratch = tempfile.mkdtemp(prefix="verif-seed-", dir=base)
        rec = {"seed": name, "expected_rule": meta.get("detected_by", "")}
        try:
            copy_tree(scratch)
            ap = subprocess.run(["git", "apply", "--whitespace=nowarn", os.path.join(sdir, "patch.diff")], cwd=scratch, capture_output=True, text=True)
            if ap.returncode != 0:
                rec["status"] = "patch does not apply to the current tree"
                rec["detail"] = ap.stderr.strip()[:200]
                results.append(rec)
                continue
            env = dict(os.environ, VERIF_REPO=scratch, VERIF_TAG=tag)
            p = subprocess.run([os.path.join(VERIF, "check"), pid], env=env, capture_output=True, text=True, cwd=VERIF)
            keys = re.findall(r"^\s+(?:violation|anchor lost / unrecognised shape) \[(.+?)\]", p.stdout, re.M)
            rec["reported"] = bool(p.returncode == 1 and ("VIOLATION property=%s" % pid) in p.stdout)
            rec["status"] = "reported" if rec["reported"] else "NOT reported (checker weakness)"
            rec["reported_as"] = keys[:6]
            results.append(rec)
        finally:
            shutil.rmtree(scratch, ignore_errors=True)
            for d in glob.glob(os.path.join(VERIF, ".cache", "facts", "*@" + tag)):
                shutil.rmtree(d, ignore_errors=True)
            shutil.rmtree(os.path.join(VERIF, "out", "violations-" + tag), ignore_errors=True)
    n = len(results)
    k = sum(1 for r in results if r.get("reported"))
    na = sum(1 for r in results if r["status"].startswith("patch does not"))
    print("sensitivity suite: %d seeded defect(s) for %s: %d reported, %d not reported, %d no longer applicable (%.0fs)" % (n, pid, k, n - k - na, na, time.time() - t0))
    for r in results:
        print("  seed %s: %s %s" % (r["seed"], r["status"], r.get("reported_as", "")))
    # record in the evidence of this run
    ef = os.path.join(VERIF, "evidence", "%s.json" % pid)
    try:
        ev = json.load(open(ef))
        ev["coverage"]["sensitivity"] = {
            "what": "independently seeded defects (seeded/<id>/patch.diff) applied to a scratch copy of the current working tree; the rule must report each",
            "seeds": n, "reported": k, "not_applicable": na, "results": results,
        }
        ev["wall_s"] = round(ev.get("wall_s", 0) + time.time() - t0, 2)
        json.dump(ev, open(ef, "w"), indent=1)
    except Exception as e:  # evidence of the quick part stays as written
        print("note: could not add the sensitivity results to the evidence: %s" % e, file=sys.stderr)
    return 0
