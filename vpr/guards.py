"""Normal forms of comparison guards (R-GUARD): relation + operand descriptions, independent of operand order,
negation and which branch carries the effect."""

REL_OF_METHOD = {"lt": "<", "le": "<=", "gt": ">", "ge": ">="}
REL_OF_BINOP = {"Lt": "<", "Le": "<=", "Gt": ">", "Ge": ">=", "Eq": "==", "Ne": "!="}
NEG = {"<": ">=", "<=": ">", ">": "<=", ">=": "<", "==": "!=", "!=": "=="}
FLIP = {"<": ">", "<=": ">=", ">": "<", ">=": "<=", "==": "==", "!=": "!="}


def normal_form(b, g):
    """(rel, left desc, right desc) that HOLDS on the guarded path, with rel in {'>', '>=', '==', '!='}; None if not a comparison"""
    rel = l = r = None
    if g["kind"] == "call":
        c = g["call"]
        m = c["callee"].rsplit("::", 1)[-1]
        if "PartialOrd" in c["callee"] and m in REL_OF_METHOD and len(c["args"]) == 2:
            rel = REL_OF_METHOD[m]
            l, r = b.desc(c["args"][0]), b.desc(c["args"][1])
        elif "PartialEq" in c["callee"] and m in ("eq", "ne") and len(c["args"]) == 2:
            rel = "==" if m == "eq" else "!="
            l, r = b.desc(c["args"][0]), b.desc(c["args"][1])
    elif g["kind"] == "binop" and g.get("op") in REL_OF_BINOP:
        rel = REL_OF_BINOP[g["op"]]
        l, r = g["l"], g["r"]
    if rel is None:
        return None
    if g["taken"] == "false":
        rel = NEG[rel]
    elif g["taken"] != "true":
        return None
    if rel in ("<", "<="):
        rel = FLIP[rel]
        l, r = r, l
    return rel, l, r


def comparison_guards(b, bb):
    out = []
    for g in b.guards_of(bb):
        nf = normal_form(b, g)
        if nf:
            out.append((nf, g))
    return out
