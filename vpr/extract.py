"""Fact extraction / freshness.

`ensure(cfg)` returns the directory holding the facts of configuration `cfg` for the *current*
working tree of /repo.  Facts are keyed by a content hash over the sources; on a miss the
members' cargo fingerprints are removed (cargo would otherwise replay cached output and never
call the wrapper), the driver is re-run and the result is verified (fail closed).
"""
import fcntl
import glob
import hashlib
import json
import os
import shutil
import subprocess
import sys
import time

VERIF = os.path.dirname(os.path.dirname(os.path.abspath(__file__)))
REPO = os.environ.get("VERIF_REPO", "/repo")
CACHE = os.environ.get("VERIF_CACHE", os.path.join(VERIF, ".cache"))
DRIVER = os.path.join(VERIF, "vpx", "target", "debug", "vpx")

CONFIGS = {
    # cfg -> (cargo args, expected targets)
    "default": (
        ["--workspace"],
        [
            "varpulis_zdd.lib", "varpulis_core.lib", "varpulis_parser.lib", "varpulis_lsp.lib", "varpulis_lsp.bin",
            "varpulis_mcp.lib", "varpulis_mcp.bin", "varpulis_runtime.lib", "varpulis_cluster.lib",
            "varpulis_cli.lib", "varpulis.bin",
        ],
    ),
    "raft": (
        ["-p", "varpulis-cluster", "-p", "varpulis-cli", "--features", "varpulis-cli/raft"],
        ["varpulis_cluster.lib", "varpulis_cli.lib", "varpulis.bin"],
    ),
    "persistent": (
        ["-p", "varpulis-cluster", "--features", "varpulis-cluster/persistent"],
        ["varpulis_cluster.lib"],
    ),
    "codec": (
        ["-p", "varpulis-runtime", "--features", "varpulis-runtime/binary-codec"],
        ["varpulis_runtime.lib"],
    ),
}


def log(*a):
    print("[extract]", *a, file=sys.stderr, flush=True)


def source_hash(repo=None):
    repo = repo or REPO
    h = hashlib.sha256()
    files = []
    for pat in ("crates/**/*.rs", "crates/**/*.pest", "crates/*/Cargo.toml", "Cargo.toml", "Cargo.lock"):
        files.extend(glob.glob(os.path.join(repo, pat), recursive=True))
    for f in sorted(set(files)):
        if "/target/" in f:
            continue
        h.update(os.path.relpath(f, repo).encode())
        h.update(b"\0")
        with open(f, "rb") as fh:
            h.update(fh.read())
        h.update(b"\0")
    # the driver version is part of the key
    with open(DRIVER, "rb") as fh:
        h.update(hashlib.sha256(fh.read()).digest())
    return h.hexdigest()


def _sysroot_lib():
    out = subprocess.run(["rustc", "+nightly", "--print", "sysroot"], capture_output=True, text=True, check=True)
    return os.path.join(out.stdout.strip(), "lib")


def build_driver():
    if os.path.exists(DRIVER):
        src_m = max(os.path.getmtime(p) for p in glob.glob(os.path.join(VERIF, "vpx", "src", "*.rs")))
        if os.path.getmtime(DRIVER) >= src_m:
            return
    log("building vpx driver")
    r = subprocess.run(["cargo", "build", "--offline"], cwd=os.path.join(VERIF, "vpx"), capture_output=True, text=True)
    if r.returncode != 0:
        sys.stderr.write(r.stderr[-4000:])
        raise SystemExit("vpx driver build failed")


def ensure(cfg="default", repo=None, tag=None):
    """Return facts directory for `cfg`, extracting if the cache is stale.
    `repo`/`tag`: extract from another source tree (used by the mutant suite) into a separately tagged cache."""
    repo = repo or REPO
    tag = tag or os.environ.get("VERIF_TAG") or None
    os.makedirs(CACHE, exist_ok=True)
    build_driver()
    name = cfg if tag is None else "%s@%s" % (cfg, tag)
    fdir = os.path.join(CACHE, "facts", name)
    lock = open(os.path.join(CACHE, "lock"), "w")
    fcntl.flock(lock, fcntl.LOCK_EX)
    try:
        want = source_hash(repo)
        hfile = os.path.join(fdir, "HASH")
        if os.path.exists(hfile) and open(hfile).read().strip() == want:
            return fdir
        t0 = time.time()
        args, expected = CONFIGS[cfg]
        target = os.path.join(CACHE, "target")
        # force the members to be re-checked through the wrapper
        for d in glob.glob(os.path.join(target, "debug", ".fingerprint", "varpulis*")):
            shutil.rmtree(d, ignore_errors=True)
        tmp = fdir + ".tmp"
        shutil.rmtree(tmp, ignore_errors=True)
        os.makedirs(tmp)
        env = dict(os.environ)
        env.update(
            LD_LIBRARY_PATH=_sysroot_lib() + ":" + env.get("LD_LIBRARY_PATH", ""),
            VPX_OUT=tmp,
            RUSTFLAGS="-Zmir-opt-level=0 -Awarnings -Coverflow-checks=on -Cdebug-assertions=on",
            RUSTC_WORKSPACE_WRAPPER=DRIVER,
            CARGO_TARGET_DIR=target,
            CARGO_NET_OFFLINE="true",
        )
        env.pop("RUSTC_WRAPPER", None)
        cmd = ["cargo", "+nightly", "check", "--offline", "-j", str(os.cpu_count() or 8)] + args
        log("cfg=%s: %s (in %s)" % (cfg, " ".join(cmd), repo))
        r = subprocess.run(cmd, cwd=repo, env=env, capture_output=True, text=True)
        if r.returncode != 0:
            sys.stderr.write(r.stderr[-6000:])
            raise SystemExit("fact extraction failed for cfg=%s (the tree does not compile?)" % cfg)
        # fail closed: every expected target must have produced facts, with all bodies captured
        for t in expected:
            mf = os.path.join(tmp, t + ".meta.json")
            if not os.path.exists(mf):
                sys.stderr.write(r.stderr[-3000:])
                raise SystemExit("no facts for target %s (cfg=%s): wrapper was not invoked" % (t, cfg))
            m = json.load(open(mf))
            if m["owners"] != m["captured"]:
                raise SystemExit("target %s: captured %d of %d bodies" % (t, m["captured"], m["owners"]))
        with open(os.path.join(tmp, "HASH"), "w") as fh:
            fh.write(want)
        shutil.rmtree(fdir, ignore_errors=True)
        os.rename(tmp, fdir)
        log("cfg=%s extracted in %.1fs" % (cfg, time.time() - t0))
        return fdir
    finally:
        fcntl.flock(lock, fcntl.LOCK_UN)
        lock.close()


if __name__ == "__main__":
    for c in sys.argv[1:] or ["default"]:
        print(ensure(c))
