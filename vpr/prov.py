"""Provenance slices over MIR locals (flow-insensitive, intra-procedural with closure / caller hooks)."""
from collections import defaultdict

from .mir import Body, op_place, op_const

TRANSPARENT_SUFFIX = (
    "::clone", "::as_ref", "::as_mut", "::deref", "::deref_mut", "::to_owned", "::to_string", "::into", "::from",
    "::borrow", "::borrow_mut", "::as_str", "::as_deref", "::as_slice", "::cloned", "::copied", "::unwrap",
    "::expect", "::unwrap_or", "::unwrap_or_default", "::unwrap_or_else", "::map", "::and_then", "::ok", "::ok_or",
    "::ok_or_else", "::iter", "::into_iter", "::collect", "::filter", "::branch", "::from_residual", "::from_output",
    "::into_future", "::new_unchecked", "::get_mut", "::poll", "::to_vec", "::as_deref_mut", "::map_err", "::then",
    "::then_some", "::take", "::rev", "::enumerate", "::filter_map", "::flat_map", "::flatten", "::chain", "::zip",
)


class Origins:
    def __init__(self):
        self.params = set()  # (index, name)
        self.calls = []  # (callee, inst, bb)
        self.consts = set()  # val strings
        self.fnrefs = set()  # def paths of fn items / closures referenced as values
        self.fields = set()  # (adt, field) read on the way
        self.closures = set()  # closure def paths created on the way
        self.upvars = set()  # names of captured variables (when slicing inside a closure body)
        self.locals = set()

    def call_names(self):
        s = set()
        for c, i, _ in self.calls:
            s.add(c)
            if i:
                s.add(i)
        return s

    def has_call(self, pred):
        if isinstance(pred, str):
            name = pred
            pred = lambda n: n == name or n.endswith(name)
        return any(pred(n) for n in self.call_names())

    def summary(self):
        return {
            "params": sorted(n or "_%d" % i for i, n in self.params),
            "calls": sorted(self.call_names())[:12],
            "fields": sorted("%s.%s" % f for f in self.fields)[:12],
            "closures": sorted(self.closures),
            "upvars": sorted(self.upvars),
            "consts": sorted(self.consts)[:6],
        }


class Slicer:
    def __init__(self, body: Body):
        self.b = body
        self._mutrefs = None
        self._upvar_names = {}
        for u in body.js.get("upvars", []):
            pl = u["place"]
            # (*_1).N or _1.N
            for e in pl["p"]:
                if isinstance(e, dict) and "f" in e and e.get("a", "").startswith("closure:"):
                    self._upvar_names[e["f"]] = u["name"]
                    break

    # locals R that hold a `&mut` to (part of) local X, transitively through moves / reborrows
    def _build_mutrefs(self):
        b = self.b
        direct = defaultdict(set)  # X -> {R}
        moves = defaultdict(set)  # R -> {R2} (R2 = move R | &mut *R)
        for l, ds in b.defs.items():
            for d in ds:
                if d[0] != "stmt":
                    continue
                s = d[3]
                if s["d"]["p"]:
                    continue
                if s["k"] == "ref" and s.get("mut"):
                    src = op_place(s["o"][0])
                    if src is None:
                        continue
                    if "*" in src["p"][:1]:
                        moves[src["l"]].add(l)  # reborrow through a reference local
                    else:
                        direct[src["l"]].add(l)
                elif s["k"] in ("use", "cast"):
                    src = op_place(s["o"][0])
                    if src is not None and not src["p"] and b.local_ty(src["l"]).startswith("&") and "mut" in b.local_ty(src["l"])[:12]:
                        moves[src["l"]].add(l)
        res = {}
        for x, rs in direct.items():
            seen = set(rs)
            st = list(rs)
            while st:
                r = st.pop()
                for r2 in moves.get(r, ()):
                    if r2 not in seen:
                        seen.add(r2)
                        st.append(r2)
            res[x] = seen
        # a `&mut T` parameter / local is itself a handle: calls taking it may mutate its pointee
        self._moves = moves
        self._mutrefs = res

    def mutators_of(self, x):
        """call terminators that receive a &mut to local x (or x itself when x is a &mut handle)"""
        if self._mutrefs is None:
            self._build_mutrefs()
        b = self.b
        handles = set(self._mutrefs.get(x, ()))
        ty = b.local_ty(x)
        if ty.startswith("&") and " mut " in ty[:14]:
            handles.add(x)
            st = [x]
            while st:
                r = st.pop()
                for r2 in self._moves.get(r, ()):
                    if r2 not in handles:
                        handles.add(r2)
                        st.append(r2)
        out = []
        if not handles:
            return out
        for bb, t in b.calls():
            for a in t["args"]:
                pl = op_place(a)
                if pl is not None and pl["l"] in handles and not pl["p"]:
                    out.append((bb, t))
                    break
        return out

    def origins(self, start, through_calls="all", through_mut=True, limit=4000):
        """start: iterable of locals (ints) or operands/places"""
        b = self.b
        o = Origins()
        work = []

        def push_place(pl):
            if pl is None:
                return
            for e in pl["p"]:
                if isinstance(e, dict):
                    if "f" in e:
                        if e.get("a", "").startswith("closure:"):
                            o.upvars.add(self._upvar_names.get(e["f"], e["f"]))
                        elif e.get("a"):
                            o.fields.add((e["a"], e["f"]))
                    elif "i" in e:
                        work.append(e["i"])
            work.append(pl["l"])

        def push_operand(op):
            pl = op_place(op)
            if pl is not None:
                push_place(pl)
                return
            k = op_const(op)
            if k is not None:
                if k.get("def"):
                    o.fnrefs.add(k["def"])
                elif k.get("item"):
                    o.consts.add("item:" + k["item"])
                else:
                    o.consts.add(k.get("val", ""))

        for s in start:
            if isinstance(s, int):
                work.append(s)
            elif isinstance(s, dict) and ("c" in s or "m" in s or "k" in s):
                push_operand(s)
            elif isinstance(s, dict) and "l" in s:
                push_place(s)
        while work and len(o.locals) < limit:
            l = work.pop()
            if l in o.locals:
                continue
            o.locals.add(l)
            if b.is_param(l):
                o.params.add((l, b.local_name(l)))
            for d in b.defs.get(l, ()):
                if d[0] == "stmt":
                    s = d[3]
                    if s["k"] == "agg":
                        a = s.get("agg", "")
                        if a.startswith("closure:"):
                            o.closures.add(a[len("closure:"):])
                    for op in s["o"]:
                        push_operand(op)
                else:
                    t = d[2]
                    o.calls.append((t["callee"], t["inst"], d[1]))
                    transparent = t["callee"].endswith(TRANSPARENT_SUFFIX)
                    if through_calls == "all" or (through_calls == "transparent" and transparent):
                        for a in t["args"]:
                            push_operand(a)
                        if t.get("fop"):
                            push_operand(t["fop"])
            if through_mut:
                for bb, t in self.mutators_of(l):
                    o.calls.append((t["callee"], t["inst"], bb))
                    transparent = t["callee"].endswith(TRANSPARENT_SUFFIX)
                    if through_calls == "all" or (through_calls == "transparent" and transparent):
                        for a in t["args"]:
                            push_operand(a)
        return o


def forward_uses(body: Body, local, limit=2000):
    """Where does the value in `local` flow?  Returns a list of sinks:
    ('return',) | ('call', callee, inst, bb, argidx) | ('discr', bb) | ('field_write', place) | ('yield', bb)
    following copies/moves/refs/casts/field projections/aggregates into other locals."""
    sinks = []
    seen = set()
    work = [local]
    # index uses: local -> list of statements / terminators reading it
    uses = defaultdict(list)
    for bb in range(body.n):
        if body.blocks[bb]["cl"]:
            continue
        for s in body.blocks[bb]["s"]:
            for op in s["o"]:
                pl = op_place(op)
                if pl is not None:
                    uses[pl["l"]].append(("stmt", bb, s))
        t = body.blocks[bb]["t"]
        if t["k"] == "call":
            for i, a in enumerate(t["args"]):
                pl = op_place(a)
                if pl is not None:
                    uses[pl["l"]].append(("call", bb, t, i))
        elif t["k"] == "switch":
            pl = op_place(t["discr"])
            if pl is not None:
                uses[pl["l"]].append(("switch", bb, t))
        elif t["k"] == "yield":
            pl = op_place(t.get("value"))
            if pl is not None:
                uses[pl["l"]].append(("yield", bb, t))
    while work and len(seen) < limit:
        l = work.pop()
        if l in seen:
            continue
        seen.add(l)
        if l == 0:
            sinks.append(("return",))
            continue
        for u in uses.get(l, ()):
            if u[0] == "stmt":
                s = u[2]
                d = s["d"]
                if s["k"] == "discr":
                    sinks.append(("discr", u[1]))
                    work.append(d["l"])
                    continue
                if d["p"] and any(isinstance(e, dict) and "f" in e for e in d["p"]) and d["l"] != 0:
                    sinks.append(("field_write", d, u[1]))
                work.append(d["l"])
            elif u[0] == "call":
                t = u[2]
                sinks.append(("call", t["callee"], t["inst"], u[1], u[3]))
                if t["callee"].endswith(TRANSPARENT_SUFFIX):
                    work.append(t["dest"]["l"])
            elif u[0] == "switch":
                sinks.append(("discr", u[1]))
            elif u[0] == "yield":
                sinks.append(("yield", u[1]))
    return sinks
