use crate::{esc, write_with_index, Captured, Names};
use rustc_middle::mir;
use rustc_middle::ty::{self};
use std::collections::BTreeMap;
use std::fmt::Write;

struct Fx<'a, 'tcx> {
    n: &'a Names<'tcx>,
    body: &'a mir::Body<'tcx>,
    /// (adt, field, kind) -> (count, first span)
    facc: BTreeMap<(String, String, &'static str), (usize, String)>,
    fnrefs: std::collections::BTreeSet<String>,
}

impl<'a, 'tcx> Fx<'a, 'tcx> {
    /// JSON of a place; `acc` is how the place as a whole is accessed ("r" read, "w" write, "m" &mut borrow)
    fn place(&mut self, pl: &mir::Place<'tcx>, acc: &'static str, span: rustc_span::Span) -> String {
        let tcx = self.n.tcx;
        let mut s = format!("{{\"l\":{},\"p\":[", pl.local.as_u32());
        let mut ty = mir::PlaceTy::from_ty(self.body.local_decls[pl.local].ty);
        let nproj = pl.projection.len();
        // index of the last Field projection
        let mut last_field = None;
        for (i, e) in pl.projection.iter().enumerate() {
            if matches!(e, mir::ProjectionElem::Field(..)) {
                last_field = Some(i);
            }
        }
        for (i, elem) in pl.projection.iter().enumerate() {
            if i > 0 {
                s.push(',');
            }
            match elem {
                mir::ProjectionElem::Deref => s.push_str("\"*\""),
                mir::ProjectionElem::Field(f, _) => {
                    let (adt, fname, is_adt) = match ty.ty.kind() {
                        ty::Adt(a, _) => {
                            let v = ty.variant_index.unwrap_or(rustc_abi::FIRST_VARIANT);
                            let vd = a.variant(v);
                            let an = if a.is_enum() {
                                format!("{}::{}", self.n.dp(a.did()), vd.name)
                            } else {
                                self.n.dp(a.did())
                            };
                            (an, vd.fields[f].name.to_string(), true)
                        }
                        ty::Closure(d, _) | ty::Coroutine(d, _) | ty::CoroutineClosure(d, _) => {
                            (format!("closure:{}", self.n.dp(*d)), format!("{}", f.as_u32()), false)
                        }
                        _ => (String::new(), format!("{}", f.as_u32()), false),
                    };
                    let _ = write!(s, "{{\"f\":\"{}\",\"a\":\"{}\"}}", esc(&fname), esc(&adt));
                    if is_adt {
                        // access kind of this field: the last field of the path carries the access of the
                        // whole place when nothing but derefs/indexes follow; earlier fields are "through"
                        let kind: &'static str = if Some(i) == last_field {
                            let tail_plain = pl.projection[i + 1..nproj].iter().all(|e| {
                                matches!(
                                    e,
                                    mir::ProjectionElem::Deref
                                        | mir::ProjectionElem::Index(_)
                                        | mir::ProjectionElem::ConstantIndex { .. }
                                        | mir::ProjectionElem::Subslice { .. }
                                        | mir::ProjectionElem::Downcast(..)
                                )
                            });
                            let _ = tail_plain;
                            acc
                        } else {
                            match acc {
                                "w" => "wt",
                                "m" => "mt",
                                _ => "rt",
                            }
                        };
                        let key = (adt, fname, kind);
                        let sp = self.n.sp(span);
                        self.facc.entry(key).and_modify(|e| e.0 += 1).or_insert((1, sp));
                    }
                }
                mir::ProjectionElem::Downcast(name, _) => {
                    let _ = write!(s, "{{\"d\":\"{}\"}}", name.map(|x| x.to_string()).unwrap_or_default());
                }
                mir::ProjectionElem::Index(l) => {
                    let _ = write!(s, "{{\"i\":{}}}", l.as_u32());
                }
                mir::ProjectionElem::ConstantIndex { .. } | mir::ProjectionElem::Subslice { .. } => s.push_str("\"[]\""),
                _ => s.push_str("\"?\""),
            }
            ty = ty.projection_ty(tcx, elem);
        }
        s.push_str("]}");
        s
    }
    fn operand(&mut self, op: &mir::Operand<'tcx>, span: rustc_span::Span) -> String {
        match op {
            mir::Operand::Copy(p) => format!("{{\"c\":{}}}", self.place(p, "r", span)),
            mir::Operand::Move(p) => format!("{{\"m\":{}}}", self.place(p, "r", span)),
            mir::Operand::Constant(c) => {
                let t = c.const_.ty();
                let def = match t.kind() {
                    ty::FnDef(d, _) => self.n.dp(*d),
                    ty::Closure(d, _) => self.n.dp(*d),
                    _ => String::new(),
                };
                if !def.is_empty() {
                    self.fnrefs.insert(def.clone());
                }
                let item = match c.const_ {
                    mir::Const::Unevaluated(u, _) => self.n.dp(u.def),
                    _ => String::new(),
                };
                let val = rustc_middle::ty::print::with_no_trimmed_paths!(format!("{}", c.const_));
                format!(
                    "{{\"k\":{{\"ty\":\"{}\",\"def\":\"{}\",\"item\":\"{}\",\"val\":\"{}\"}}}}",
                    esc(&self.n.ty(t)),
                    esc(&def),
                    esc(&item),
                    esc(&val)
                )
            }
            #[allow(unreachable_patterns)]
            _ => "{\"o\":1}".into(),
        }
    }
    fn op_ty(&self, op: &mir::Operand<'tcx>) -> String {
        self.n.ty(op.ty(&self.body.local_decls, self.n.tcx))
    }
}

pub fn dump<'tcx>(n: &Names<'tcx>, out: &str, target: &str, bodies: &[Captured]) -> usize {
    let tcx = n.tcx;
    let mut rows: Vec<(String, String)> = Vec::new();
    let mut calls = String::new();
    let mut facc_out = String::new();
    let mut fnrefs_out = String::new();
    for Captured(ldid, body) in bodies.iter() {
        let body: &mir::Body<'tcx> = unsafe { std::mem::transmute(body) };
        let did = ldid.to_def_id();
        let path = n.dp(did);
        let root = tcx.typeck_root_def_id(did);
        let parent = if root != did { n.dp(root) } else { String::new() };
        let mut fx = Fx { n, body, facc: BTreeMap::new(), fnrefs: Default::default() };
        let mut buf = String::new();
        let _ = write!(
            buf,
            "{{\"f\":\"{}\",\"parent\":\"{}\",\"argc\":{},\"span\":\"{}\",\"locals\":[",
            esc(&path),
            esc(&parent),
            body.arg_count,
            n.sp_range(body.span)
        );
        let mut names = std::collections::HashMap::new();
        let mut upvars: Vec<String> = Vec::new();
        for vdi in &body.var_debug_info {
            if let mir::VarDebugInfoContents::Place(p) = &vdi.value {
                if p.projection.is_empty() {
                    names.entry(p.local).or_insert_with(|| vdi.name.to_string());
                } else {
                    let pj = fx.place(p, "n", body.span);
                    upvars.push(format!("{{\"name\":\"{}\",\"place\":{}}}", esc(vdi.name.as_str()), pj));
                }
            }
        }
        // debuginfo places must not count as field accesses
        fx.facc.clear();
        for (i, (l, d)) in body.local_decls.iter_enumerated().enumerate() {
            if i > 0 {
                buf.push(',');
            }
            let _ = write!(
                buf,
                "{{\"ty\":\"{}\",\"name\":\"{}\"}}",
                esc(&n.ty(d.ty)),
                esc(names.get(&l).map(|s| s.as_str()).unwrap_or(""))
            );
        }
        let _ = write!(buf, "],\"upvars\":[{}],\"blocks\":[", upvars.join(","));
        for (bi, (bb, d)) in body.basic_blocks.iter_enumerated().enumerate() {
            if bi > 0 {
                buf.push(',');
            }
            buf.push_str("{\"s\":[");
            let mut first = true;
            for st in &d.statements {
                let span = st.source_info.span;
                if let mir::StatementKind::Assign(b) = &st.kind {
                    let (pl, rv) = &**b;
                    if !first {
                        buf.push(',');
                    }
                    first = false;
                    let (k, ops, extra): (&str, Vec<String>, String) = match rv {
                        mir::Rvalue::Use(o, _) => ("use", vec![fx.operand(o, span)], String::new()),
                        mir::Rvalue::Ref(_, bk, p) => {
                            let m = matches!(bk, mir::BorrowKind::Mut { .. });
                            let fake = matches!(bk, mir::BorrowKind::Fake(..));
                            let pj = fx.place(p, if m { "m" } else if fake { "n" } else { "r" }, span);
                            ("ref", vec![format!("{{\"c\":{}}}", pj)], format!(",\"mut\":{},\"fake\":{}", m, fake))
                        }
                        mir::Rvalue::RawPtr(kind, p) => {
                            let m = matches!(kind, mir::RawPtrKind::Mut);
                            let pj = fx.place(p, if m { "m" } else { "r" }, span);
                            ("ref", vec![format!("{{\"c\":{}}}", pj)], format!(",\"mut\":{},\"raw\":true", m))
                        }
                        mir::Rvalue::BinaryOp(op, b2) => {
                            let lty = fx.op_ty(&b2.0);
                            let rty = fx.op_ty(&b2.1);
                            (
                                "binop",
                                vec![fx.operand(&b2.0, span), fx.operand(&b2.1, span)],
                                format!(",\"op\":\"{:?}\",\"lty\":\"{}\",\"rty\":\"{}\"", op, esc(&lty), esc(&rty)),
                            )
                        }
                        mir::Rvalue::UnaryOp(op, o) => {
                            let oty = fx.op_ty(o);
                            ("unop", vec![fx.operand(o, span)], format!(",\"op\":\"{:?}\",\"lty\":\"{}\"", op, esc(&oty)))
                        }
                        mir::Rvalue::Cast(ck, o, t) => {
                            let from = fx.op_ty(o);
                            (
                                "cast",
                                vec![fx.operand(o, span)],
                                format!(
                                    ",\"cast\":\"{}\",\"from\":\"{}\",\"to\":\"{}\"",
                                    esc(&format!("{:?}", ck)),
                                    esc(&from),
                                    esc(&n.ty(*t))
                                ),
                            )
                        }
                        mir::Rvalue::Aggregate(ak, os) => {
                            let d = match &**ak {
                                mir::AggregateKind::Adt(d, vi, ..) => {
                                    let a = tcx.adt_def(*d);
                                    if a.is_enum() {
                                        format!("adt:{}::{}", n.dp(*d), a.variant(*vi).name)
                                    } else {
                                        format!("adt:{}", n.dp(*d))
                                    }
                                }
                                mir::AggregateKind::Closure(d, _) => format!("closure:{}", n.dp(*d)),
                                mir::AggregateKind::Coroutine(d, _) => format!("closure:{}", n.dp(*d)),
                                mir::AggregateKind::CoroutineClosure(d, _) => format!("closure:{}", n.dp(*d)),
                                mir::AggregateKind::Tuple => "tuple".into(),
                                mir::AggregateKind::Array(_) => "array".into(),
                                _ => "other".into(),
                            };
                            let mut fnames = String::new();
                            if let mir::AggregateKind::Adt(d, vi, ..) = &**ak {
                                let a = tcx.adt_def(*d);
                                let v = a.variant(*vi);
                                let an = if a.is_enum() { format!("{}::{}", n.dp(*d), v.name) } else { n.dp(*d) };
                                let fl: Vec<String> =
                                    v.fields.iter().map(|f| format!("\"{}\"", esc(f.name.as_str()))).collect();
                                fnames = format!(",\"fields\":[{}]", fl.join(","));
                                if d.is_local() || an.starts_with("varpulis") {
                                    let sp = n.sp(span);
                                    fx.facc
                                        .entry((an, "*".into(), "init"))
                                        .and_modify(|e| e.0 += 1)
                                        .or_insert((1, sp));
                                }
                            }
                            (
                                "agg",
                                os.iter().map(|o| fx.operand(o, span)).collect(),
                                format!(",\"agg\":\"{}\"{}", esc(&d), fnames),
                            )
                        }
                        mir::Rvalue::Discriminant(p) => {
                            ("discr", vec![format!("{{\"c\":{}}}", fx.place(p, "r", span))], String::new())
                        }
                        mir::Rvalue::CopyForDeref(p) => {
                            ("use", vec![format!("{{\"c\":{}}}", fx.place(p, "r", span))], String::new())
                        }
                        mir::Rvalue::Repeat(o, _) => ("agg", vec![fx.operand(o, span)], ",\"agg\":\"array\"".into()),
                        _ => ("other", vec![], String::new()),
                    };
                    let dst = fx.place(pl, "w", span);
                    let _ = write!(
                        buf,
                        "{{\"d\":{},\"k\":\"{}\",\"o\":[{}]{},\"sp\":\"{}\",\"exp\":\"{}\"}}",
                        dst,
                        k,
                        ops.join(","),
                        extra,
                        n.sp(span),
                        n.exp(span)
                    );
                }
            }
            buf.push_str("],\"t\":");
            let t = d.terminator();
            let tspan = t.source_info.span;
            let succ: Vec<String> = t.successors().map(|b| b.as_u32().to_string()).collect();
            match &t.kind {
                mir::TerminatorKind::Call { func, args, destination, target, unwind, .. } => {
                    let fty = func.ty(&body.local_decls, tcx);
                    let (callee, cargs, inst, virt) = if let ty::FnDef(d2, ga) = fty.kind() {
                        let i = ty::Instance::try_resolve(tcx, ty::TypingEnv::post_analysis(tcx, did), *d2, ga);
                        let (inst, virt) = match i {
                            Ok(Some(i)) => (n.dp(i.def_id()), matches!(i.def, ty::InstanceKind::Virtual(..))),
                            _ => (String::new(), false),
                        };
                        (n.dp(*d2), n.dp_args(*d2, ga), inst, virt)
                    } else {
                        (format!("indirect:{}", n.ty(fty)), String::new(), String::new(), false)
                    };
                    let fop = if matches!(fty.kind(), ty::FnDef(..)) { "null".to_string() } else { fx.operand(func, tspan) };
                    let atys: Vec<String> = args.iter().map(|a| format!("\"{}\"", esc(&fx.op_ty(&a.node)))).collect();
                    let aops: Vec<String> = args.iter().map(|a| fx.operand(&a.node, tspan)).collect();
                    let dst = fx.place(destination, "w", tspan);
                    let uw = match unwind {
                        mir::UnwindAction::Cleanup(b) => b.as_u32().to_string(),
                        _ => "null".into(),
                    };
                    let _ = write!(
                        buf,
                        "{{\"k\":\"call\",\"callee\":\"{}\",\"cargs\":\"{}\",\"inst\":\"{}\",\"virt\":{},\"fop\":{},\"args\":[{}],\"atys\":[{}],\"dest\":{},\"target\":{},\"unwind\":{},\"sp\":\"{}\",\"exp\":\"{}\"}}",
                        esc(&callee), esc(&cargs), esc(&inst), virt, fop, aops.join(","), atys.join(","), dst,
                        target.map(|b| b.as_u32().to_string()).unwrap_or("null".into()), uw, n.sp(tspan), n.exp(tspan)
                    );
                    let _ = writeln!(
                        calls,
                        "{{\"f\":\"{}\",\"bb\":{},\"callee\":\"{}\",\"inst\":\"{}\",\"virt\":{},\"sp\":\"{}\",\"exp\":\"{}\"}}",
                        esc(&path), bb.as_u32(), esc(&callee), esc(&inst), virt, n.sp(tspan), n.exp(tspan)
                    );
                }
                mir::TerminatorKind::SwitchInt { discr, targets } => {
                    let vals: Vec<String> = targets.iter().map(|(v, b)| format!("[{},{}]", v, b.as_u32())).collect();
                    let dty = fx.op_ty(discr);
                    let _ = write!(
                        buf,
                        "{{\"k\":\"switch\",\"discr\":{},\"dty\":\"{}\",\"cases\":[{}],\"otherwise\":{},\"sp\":\"{}\",\"exp\":\"{}\"}}",
                        fx.operand(discr, tspan), esc(&dty), vals.join(","), targets.otherwise().as_u32(), n.sp(tspan), n.exp(tspan)
                    );
                }
                mir::TerminatorKind::Assert { msg, target, cond, expected, .. } => {
                    let (kind, ops): (String, Vec<String>) = match &**msg {
                        mir::AssertKind::Overflow(op, a, b) => {
                            (format!("Overflow({:?})", op), vec![fx.operand(a, tspan), fx.operand(b, tspan)])
                        }
                        mir::AssertKind::OverflowNeg(a) => ("OverflowNeg".into(), vec![fx.operand(a, tspan)]),
                        mir::AssertKind::DivisionByZero(a) => ("DivisionByZero".into(), vec![fx.operand(a, tspan)]),
                        mir::AssertKind::RemainderByZero(a) => ("RemainderByZero".into(), vec![fx.operand(a, tspan)]),
                        mir::AssertKind::BoundsCheck { len, index } => {
                            ("BoundsCheck".into(), vec![fx.operand(len, tspan), fx.operand(index, tspan)])
                        }
                        o => {
                            let s = format!("{:?}", o);
                            (s.split(|c: char| !c.is_alphanumeric()).next().unwrap_or("").to_string(), vec![])
                        }
                    };
                    let _ = write!(
                        buf,
                        "{{\"k\":\"assert\",\"msg\":\"{}\",\"ops\":[{}],\"cond\":{},\"expected\":{},\"target\":{},\"sp\":\"{}\",\"exp\":\"{}\"}}",
                        esc(&kind), ops.join(","), fx.operand(cond, tspan), expected, target.as_u32(), n.sp(tspan), n.exp(tspan)
                    );
                }
                mir::TerminatorKind::FalseEdge { real_target, .. } => {
                    let _ = write!(buf, "{{\"k\":\"goto\",\"target\":{}}}", real_target.as_u32());
                }
                mir::TerminatorKind::FalseUnwind { real_target, .. } => {
                    let _ = write!(buf, "{{\"k\":\"goto\",\"target\":{},\"loop\":true}}", real_target.as_u32());
                }
                mir::TerminatorKind::Goto { target } => {
                    let _ = write!(buf, "{{\"k\":\"goto\",\"target\":{}}}", target.as_u32());
                }
                mir::TerminatorKind::Drop { target, place, .. } => {
                    let pj = fx.place(place, "n", tspan);
                    let _ = write!(buf, "{{\"k\":\"drop\",\"target\":{},\"place\":{}}}", target.as_u32(), pj);
                }
                mir::TerminatorKind::Return => buf.push_str("{\"k\":\"return\"}"),
                mir::TerminatorKind::Unreachable => buf.push_str("{\"k\":\"unreachable\"}"),
                mir::TerminatorKind::UnwindResume => buf.push_str("{\"k\":\"resume\"}"),
                mir::TerminatorKind::Yield { resume, value, .. } => {
                    let _ = write!(
                        buf,
                        "{{\"k\":\"yield\",\"target\":{},\"value\":{}}}",
                        resume.as_u32(),
                        fx.operand(value, tspan)
                    );
                }
                _ => {
                    let _ = write!(buf, "{{\"k\":\"other\",\"succ\":[{}]}}", succ.join(","));
                }
            }
            let _ = write!(buf, ",\"cl\":{}}}", d.is_cleanup);
        }
        buf.push_str("]}");
        for ((adt, field, kind), (cnt, sp)) in fx.facc.iter() {
            if *kind == "n" {
                continue;
            }
            let _ = writeln!(
                facc_out,
                "{{\"f\":\"{}\",\"adt\":\"{}\",\"field\":\"{}\",\"k\":\"{}\",\"n\":{},\"sp\":\"{}\"}}",
                esc(&path),
                esc(adt),
                esc(field),
                kind,
                cnt,
                sp
            );
        }
        for r in fx.fnrefs.iter() {
            let _ = writeln!(fnrefs_out, "{{\"f\":\"{}\",\"ref\":\"{}\"}}", esc(&path), esc(r));
        }
        rows.push((path, buf));
    }
    let cnt = rows.len();
    write_with_index(out, &format!("{}.mir.jsonl", target), &rows);
    std::fs::write(format!("{}/{}.calls.jsonl", out, target), calls).expect("vpx: write calls");
    std::fs::write(format!("{}/{}.fieldacc.jsonl", out, target), facc_out).expect("vpx: write fieldacc");
    std::fs::write(format!("{}/{}.fnrefs.jsonl", out, target), fnrefs_out).expect("vpx: write fnrefs");
    cnt
}
