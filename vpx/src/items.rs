use crate::{esc, Names};
use rustc_hir::def::DefKind;
use std::fmt::Write;

pub fn dump<'tcx>(n: &Names<'tcx>, out: &str, target: &str) -> usize {
    let tcx = n.tcx;
    let mut buf = String::new();
    let mut cnt = 0usize;
    for ldid in tcx.hir_crate_items(()).definitions() {
        let did = ldid.to_def_id();
        match tcx.def_kind(ldid) {
            DefKind::Struct | DefKind::Enum => {
                let adt = tcx.adt_def(did);
                let kind = if adt.is_enum() { "enum" } else { "struct" };
                let _ = write!(
                    buf,
                    "{{\"k\":\"{}\",\"path\":\"{}\",\"vis\":\"{}\",\"span\":\"{}\",\"variants\":[",
                    kind,
                    esc(&n.dp(did)),
                    esc(&format!("{:?}", tcx.visibility(did))),
                    n.sp_range(tcx.def_span(did))
                );
                for (vi, v) in adt.variants().iter().enumerate() {
                    if vi > 0 {
                        buf.push(',');
                    }
                    let _ = write!(buf, "{{\"n\":\"{}\",\"fields\":[", esc(v.name.as_str()));
                    for (fi, f) in v.fields.iter().enumerate() {
                        if fi > 0 {
                            buf.push(',');
                        }
                        let fty = tcx.type_of(f.did).instantiate_identity().skip_norm_wip();
                        // derive-helper attributes (`#[serde(..)]`) are not kept in the HIR of this toolchain: recover them
                        // from the source text between the previous field (or the item start) and this field
                        let mut attrs = Vec::new();
                        if f.did.is_local() {
                            let fsp = tcx.def_span(f.did);
                            let isp = tcx.def_span(did);
                            if !fsp.from_expansion() {
                                let prev_hi = if fi == 0 {
                                    // start of the variant (enum) or of the item header
                                    if adt.is_enum() { tcx.def_span(v.def_id).lo() } else { isp.lo() }
                                } else {
                                    tcx.def_span(v.fields[rustc_abi::FieldIdx::from_usize(fi - 1)].did).hi()
                                };
                                if prev_hi <= fsp.lo() {
                                    let gap = fsp.with_lo(prev_hi).with_hi(fsp.lo());
                                    if let Ok(txt) = tcx.sess.source_map().span_to_snippet(gap) {
                                        let mut rest = txt.as_str();
                                        while let Some(i) = rest.find("serde(") {
                                            let tail = &rest[i..];
                                            // up to the closing bracket of the attribute
                                            let end = tail.find(']').unwrap_or(tail.len());
                                            attrs.push(compact_attr(&tail[..end]));
                                            rest = &tail[end..];
                                        }
                                    }
                                }
                            }
                        }
                        let pubvis = tcx.visibility(f.did).is_public();
                        let _ = write!(
                            buf,
                            "{{\"n\":\"{}\",\"ty\":\"{}\",\"pub\":{},\"attrs\":[{}]}}",
                            esc(f.name.as_str()),
                            esc(&n.ty(fty)),
                            pubvis,
                            attrs.iter().map(|a| format!("\"{}\"", esc(a))).collect::<Vec<_>>().join(",")
                        );
                    }
                    buf.push_str("]}");
                }
                buf.push_str("]}\n");
                cnt += 1;
            }
            DefKind::Fn | DefKind::AssocFn => {
                let sig = tcx.instantiate_bound_regions_with_erased(tcx.fn_sig(did).instantiate_identity().skip_norm_wip());
                let inputs: Vec<String> = sig.inputs().iter().map(|t| format!("\"{}\"", esc(&n.ty(*t)))).collect();
                let output = n.ty(sig.output());
                let mut trait_item = String::new();
                let mut self_ty = String::new();
                let mut in_trait = false;
                if matches!(tcx.def_kind(ldid), DefKind::AssocFn) {
                    let ai = tcx.associated_item(did);
                    if let Some(t) = ai.trait_item_def_id() {
                        if t != did {
                            trait_item = n.dp(t);
                        } else {
                            in_trait = true;
                        }
                    }
                    let parent = tcx.parent(did);
                    if matches!(tcx.def_kind(parent), DefKind::Impl { .. }) {
                        let st = tcx.type_of(parent).instantiate_identity().skip_norm_wip();
                        self_ty = n.ty(st);
                    }
                }
                let _ = writeln!(
                    buf,
                    "{{\"k\":\"fn\",\"path\":\"{}\",\"vis\":\"{}\",\"pub\":{},\"async\":{},\"inputs\":[{}],\"output\":\"{}\",\"trait_item\":\"{}\",\"in_trait\":{},\"self_ty\":\"{}\",\"has_body\":{},\"span\":\"{}\"}}",
                    esc(&n.dp(did)),
                    esc(&format!("{:?}", tcx.visibility(did))),
                    tcx.visibility(did).is_public(),
                    tcx.asyncness(did).is_async(),
                    inputs.join(","),
                    esc(&output),
                    esc(&trait_item),
                    in_trait,
                    esc(&self_ty),
                    tcx.hir_maybe_body_owned_by(ldid).is_some(),
                    n.sp_range(tcx.def_span(did))
                );
                cnt += 1;
            }
            _ => {}
        }
    }
    std::fs::write(format!("{}/{}.items.jsonl", out, target), buf).expect("vpx: write items");
    cnt
}

fn compact_attr(dbg: &str) -> String {
    // Debug output of an unparsed attribute is verbose; keep identifier-like symbols and string literals.
    let mut toks: Vec<String> = Vec::new();
    let mut cur = String::new();
    for c in dbg.chars() {
        if c.is_alphanumeric() || c == '_' {
            cur.push(c);
        } else {
            if !cur.is_empty() {
                toks.push(std::mem::take(&mut cur));
            }
        }
    }
    if !cur.is_empty() {
        toks.push(cur);
    }
    let keep = [
        "serde", "skip", "skip_serializing", "skip_deserializing", "skip_serializing_if", "default", "flatten",
        "rename", "with", "serialize_with", "deserialize_with", "tag", "untagged",
    ];
    let mut o: Vec<String> = Vec::new();
    for t in toks {
        if keep.contains(&t.as_str()) && !o.contains(&t) {
            o.push(t);
        }
    }
    o.join(" ")
}
