use crate::{esc, write_with_index, Names};
use rustc_hir as hir;
use rustc_hir::def::{DefKind, Res};
use rustc_middle::ty::{self};

struct Cx<'a, 'tcx> {
    n: &'a Names<'tcx>,
    tck: &'a ty::TypeckResults<'tcx>,
}

impl<'a, 'tcx> Cx<'a, 'tcx> {
    fn sp(&self, s: rustc_span::Span) -> String {
        format!("\"sp\":\"{}\",\"exp\":\"{}\"", self.n.sp(s), self.n.exp(s))
    }
    fn res(&self, r: Res) -> String {
        match r {
            Res::Local(id) => format!("local:{}#{}", self.n.tcx.hir_name(id), id.local_id.as_u32()),
            Res::Def(k, d) => format!(
                "{}:{}",
                match k {
                    DefKind::Ctor(..) | DefKind::Variant => "variant",
                    DefKind::Const { .. } | DefKind::AssocConst { .. } => "const",
                    DefKind::Static { .. } => "static",
                    _ => "def",
                },
                match k {
                    // a tuple-variant constructor resolves to the Ctor def; name the variant itself
                    DefKind::Ctor(..) => self.n.dp(self.n.tcx.parent(d)),
                    _ => self.n.dp(d),
                }
            ),
            Res::SelfCtor(d) => format!("selfctor:{}", self.n.dp(d)),
            o => format!("other:{:?}", o),
        }
    }
    fn lit(&self, l: &rustc_ast::LitKind, negated: bool) -> String {
        use rustc_ast::LitKind::*;
        let neg = if negated { "-" } else { "" };
        match l {
            Str(s, _) => format!("{{\"t\":\"str\",\"v\":\"{}\"}}", esc(s.as_str())),
            Int(v, _) => format!("{{\"t\":\"int\",\"v\":\"{}{}\"}}", neg, v.get()),
            Float(s, _) => format!("{{\"t\":\"float\",\"v\":\"{}{}\"}}", neg, esc(s.as_str())),
            Bool(b) => format!("{{\"t\":\"bool\",\"v\":\"{}\"}}", b),
            Char(c) => format!("{{\"t\":\"char\",\"v\":\"{}\"}}", esc(&c.to_string())),
            Byte(b) => format!("{{\"t\":\"byte\",\"v\":\"{}\"}}", b),
            o => format!("{{\"t\":\"other\",\"v\":\"{}\"}}", esc(&format!("{:?}", o))),
        }
    }
    fn pat(&self, p: &hir::Pat<'tcx>) -> String {
        match p.kind {
            hir::PatKind::Wild => "{\"k\":\"wild\"}".into(),
            hir::PatKind::Binding(mode, hid, id, sub) => format!(
                "{{\"k\":\"bind\",\"name\":\"{}\",\"id\":{},\"byref\":{},\"sub\":{}}}",
                id,
                hid.local_id.as_u32(),
                matches!(mode.0, hir::ByRef::Yes(..)),
                sub.map(|s| self.pat(s)).unwrap_or("null".into())
            ),
            hir::PatKind::Tuple(ps, _) => {
                format!("{{\"k\":\"tuple\",\"sub\":[{}]}}", ps.iter().map(|p| self.pat(p)).collect::<Vec<_>>().join(","))
            }
            hir::PatKind::TupleStruct(ref qp, ps, _) => format!(
                "{{\"k\":\"variant\",\"path\":\"{}\",\"sub\":[{}]}}",
                esc(&self.res(self.tck.qpath_res(qp, p.hir_id))),
                ps.iter().map(|p| self.pat(p)).collect::<Vec<_>>().join(",")
            ),
            hir::PatKind::Struct(ref qp, fs, _) => format!(
                "{{\"k\":\"variant\",\"path\":\"{}\",\"fields\":{{{}}}}}",
                esc(&self.res(self.tck.qpath_res(qp, p.hir_id))),
                fs.iter().map(|f| format!("\"{}\":{}", f.ident, self.pat(f.pat))).collect::<Vec<_>>().join(",")
            ),
            hir::PatKind::Expr(pe) => match pe.kind {
                hir::PatExprKind::Path(ref qp) => format!(
                    "{{\"k\":\"variant\",\"path\":\"{}\",\"sub\":[]}}",
                    esc(&self.res(self.tck.qpath_res(qp, pe.hir_id)))
                ),
                hir::PatExprKind::Lit { lit, negated } => {
                    format!("{{\"k\":\"lit\",\"v\":{}}}", self.lit(&lit.node, negated))
                }
                #[allow(unreachable_patterns)]
                _ => "{\"k\":\"other\"}".into(),
            },
            hir::PatKind::Ref(p, ..) => format!("{{\"k\":\"ref\",\"sub\":{}}}", self.pat(p)),
            hir::PatKind::Box(p) => format!("{{\"k\":\"ref\",\"sub\":{}}}", self.pat(p)),
            hir::PatKind::Deref(p) => format!("{{\"k\":\"ref\",\"sub\":{}}}", self.pat(p)),
            hir::PatKind::Or(ps) => {
                format!("{{\"k\":\"or\",\"alts\":[{}]}}", ps.iter().map(|p| self.pat(p)).collect::<Vec<_>>().join(","))
            }
            hir::PatKind::Range(..) => "{\"k\":\"range\"}".into(),
            hir::PatKind::Slice(a, m, b) => format!(
                "{{\"k\":\"slice\",\"before\":[{}],\"mid\":{},\"after\":[{}]}}",
                a.iter().map(|p| self.pat(p)).collect::<Vec<_>>().join(","),
                m.map(|p| self.pat(p)).unwrap_or("null".into()),
                b.iter().map(|p| self.pat(p)).collect::<Vec<_>>().join(",")
            ),
            _ => "{\"k\":\"other\"}".into(),
        }
    }
    fn oe(&self, e: Option<&hir::Expr<'tcx>>) -> String {
        e.map(|e| self.expr(e)).unwrap_or("null".into())
    }
    fn block(&self, b: &hir::Block<'tcx>) -> String {
        let stmts: Vec<String> = b
            .stmts
            .iter()
            .map(|s| match s.kind {
                hir::StmtKind::Let(l) => format!(
                    "{{\"k\":\"let\",\"pat\":{},\"init\":{},\"else\":{},\"sp\":\"{}\"}}",
                    self.pat(l.pat),
                    self.oe(l.init),
                    l.els.map(|b| self.block(b)).unwrap_or("null".into()),
                    self.n.sp(s.span)
                ),
                hir::StmtKind::Expr(e) | hir::StmtKind::Semi(e) => format!("{{\"k\":\"expr\",\"e\":{}}}", self.expr(e)),
                hir::StmtKind::Item(_) => "{\"k\":\"item\"}".into(),
            })
            .collect();
        format!("{{\"k\":\"block\",\"stmts\":[{}],\"tail\":{}}}", stmts.join(","), self.oe(b.expr))
    }
    fn callee_is(&self, f: &hir::Expr<'tcx>, suffix: &str) -> bool {
        if let hir::ExprKind::Path(ref qp) = f.kind {
            if let Res::Def(_, d) = self.tck.qpath_res(qp, f.hir_id) {
                return self.n.tcx.def_path_str(d).ends_with(suffix);
            }
        }
        false
    }
    /// `for pat in iter { body }` desugars to
    /// `match IntoIterator::into_iter(iter) { mut it => loop { match Iterator::next(&mut it) { None => break, Some(pat) => body } } }`
    fn try_for(&self, scrut: &hir::Expr<'tcx>, arms: &[hir::Arm<'tcx>]) -> Option<String> {
        let hir::ExprKind::Call(f, args) = scrut.kind else { return None };
        if !self.callee_is(f, "into_iter") || args.len() != 1 || arms.len() != 1 {
            return None;
        }
        let hir::ExprKind::Loop(lb, _, _, _) = arms[0].body.kind else { return None };
        // loop body: a block whose single statement/expr is the inner match
        let inner = if let Some(e) = lb.expr {
            e
        } else if lb.stmts.len() == 1 {
            match lb.stmts[0].kind {
                hir::StmtKind::Expr(e) | hir::StmtKind::Semi(e) => e,
                _ => return None,
            }
        } else {
            return None;
        };
        let hir::ExprKind::Match(_, iarms, _) = inner.kind else { return None };
        if iarms.len() != 2 {
            return None;
        }
        // the `Some(pat) => body` arm
        for a in iarms {
            if let hir::PatKind::Struct(_, fs, _) = a.pat.kind {
                if fs.len() == 1 {
                    return Some(format!(
                        "\"k\":\"for\",\"pat\":{},\"iter\":{},\"iter_ty\":\"{}\",\"body\":{}",
                        self.pat(fs[0].pat),
                        self.expr(&args[0]),
                        esc(&self.n.ty(self.tck.expr_ty_adjusted(&args[0]))),
                        self.expr(a.body)
                    ));
                }
            }
            if let hir::PatKind::TupleStruct(_, ps, _) = a.pat.kind {
                if ps.len() == 1 {
                    return Some(format!(
                        "\"k\":\"for\",\"pat\":{},\"iter\":{},\"iter_ty\":\"{}\",\"body\":{}",
                        self.pat(&ps[0]),
                        self.expr(&args[0]),
                        esc(&self.n.ty(self.tck.expr_ty_adjusted(&args[0]))),
                        self.expr(a.body)
                    ));
                }
            }
        }
        None
    }
    fn expr(&self, e: &hir::Expr<'tcx>) -> String {
        let sp = self.sp(e.span);
        let body = match e.kind {
            hir::ExprKind::Match(s, arms, src) => {
                let sugar = match src {
                    hir::MatchSource::AwaitDesugar => {
                        if let hir::ExprKind::Call(_, args) = s.kind {
                            args.first().map(|a| format!("\"k\":\"await\",\"e\":{}", self.expr(a)))
                        } else {
                            None
                        }
                    }
                    hir::MatchSource::TryDesugar(_) => {
                        if let hir::ExprKind::Call(_, args) = s.kind {
                            args.first().map(|a| format!("\"k\":\"try\",\"e\":{}", self.expr(a)))
                        } else {
                            None
                        }
                    }
                    hir::MatchSource::ForLoopDesugar => self.try_for(s, arms),
                    _ => None,
                };
                match sugar {
                    Some(s) => s,
                    None => format!(
                        "\"k\":\"match\",\"ty\":\"{}\",\"src\":\"{}\",\"scrut\":{},\"arms\":[{}]",
                        esc(&self.n.ty(self.tck.expr_ty(s))),
                        match src {
                            hir::MatchSource::Normal => "Normal",
                            hir::MatchSource::Postfix => "Normal",
                            hir::MatchSource::ForLoopDesugar => "ForLoop",
                            hir::MatchSource::TryDesugar(_) => "Try",
                            hir::MatchSource::AwaitDesugar => "Await",
                            hir::MatchSource::FormatArgs => "FormatArgs",
                        },
                        self.expr(s),
                        arms.iter()
                            .map(|a| format!(
                                "{{\"pat\":{},\"guard\":{},\"body\":{},\"sp\":\"{}\"}}",
                                self.pat(a.pat),
                                self.oe(a.guard),
                                self.expr(a.body),
                                self.n.sp(a.span)
                            ))
                            .collect::<Vec<_>>()
                            .join(",")
                    ),
                }
            }
            hir::ExprKind::If(c, t, el) => {
                format!("\"k\":\"if\",\"cond\":{},\"then\":{},\"else\":{}", self.expr(c), self.expr(t), self.oe(el))
            }
            hir::ExprKind::Let(l) => format!(
                "\"k\":\"letcond\",\"pat\":{},\"init\":{},\"ty\":\"{}\"",
                self.pat(l.pat),
                self.expr(l.init),
                esc(&self.n.ty(self.tck.expr_ty(l.init)))
            ),
            hir::ExprKind::Call(f, args) => {
                let callee = if let hir::ExprKind::Path(ref qp) = f.kind {
                    format!("\"{}\"", esc(&self.res(self.tck.qpath_res(qp, f.hir_id))))
                } else {
                    self.expr(f)
                };
                format!(
                    "\"k\":\"call\",\"callee\":{},\"args\":[{}]",
                    callee,
                    args.iter().map(|a| self.expr(a)).collect::<Vec<_>>().join(",")
                )
            }
            hir::ExprKind::MethodCall(seg, recv, args, _) => {
                let d = self.tck.type_dependent_def_id(e.hir_id).map(|d| self.n.dp(d)).unwrap_or_default();
                format!(
                    "\"k\":\"mcall\",\"method\":\"{}\",\"def\":\"{}\",\"recv_ty\":\"{}\",\"recv\":{},\"args\":[{}]",
                    seg.ident,
                    esc(&d),
                    esc(&self.n.ty(self.tck.expr_ty_adjusted(recv))),
                    self.expr(recv),
                    args.iter().map(|a| self.expr(a)).collect::<Vec<_>>().join(",")
                )
            }
            hir::ExprKind::Path(ref qp) => {
                format!("\"k\":\"path\",\"res\":\"{}\"", esc(&self.res(self.tck.qpath_res(qp, e.hir_id))))
            }
            hir::ExprKind::Lit(l) => format!("\"k\":\"lit\",\"v\":{}", self.lit(&l.node, false)),
            hir::ExprKind::Binary(op, l, r) => format!(
                "\"k\":\"bin\",\"op\":\"{:?}\",\"lty\":\"{}\",\"rty\":\"{}\",\"l\":{},\"r\":{}",
                op.node,
                esc(&self.n.ty(self.tck.expr_ty(l))),
                esc(&self.n.ty(self.tck.expr_ty(r))),
                self.expr(l),
                self.expr(r)
            ),
            hir::ExprKind::Unary(op, x) => format!(
                "\"k\":\"un\",\"op\":\"{:?}\",\"ty\":\"{}\",\"e\":{}",
                op,
                esc(&self.n.ty(self.tck.expr_ty(x))),
                self.expr(x)
            ),
            hir::ExprKind::Assign(l, r, _) => {
                format!("\"k\":\"assign\",\"op\":null,\"l\":{},\"r\":{}", self.expr(l), self.expr(r))
            }
            hir::ExprKind::AssignOp(op, l, r) => format!(
                "\"k\":\"assign\",\"op\":\"{}\",\"lty\":\"{}\",\"l\":{},\"r\":{}",
                format!("{:?}", op.node).trim_end_matches("Assign"),
                esc(&self.n.ty(self.tck.expr_ty(l))),
                self.expr(l),
                self.expr(r)
            ),
            hir::ExprKind::Field(x, id) => {
                let adt = match self.tck.expr_ty_adjusted(x).peel_refs().kind() {
                    ty::Adt(a, _) => self.n.dp(a.did()),
                    _ => String::new(),
                };
                format!("\"k\":\"field\",\"name\":\"{}\",\"adt\":\"{}\",\"e\":{}", id, esc(&adt), self.expr(x))
            }
            hir::ExprKind::Index(x, i, _) => format!(
                "\"k\":\"index\",\"ety\":\"{}\",\"ity\":\"{}\",\"e\":{},\"i\":{}",
                esc(&self.n.ty(self.tck.expr_ty_adjusted(x))),
                esc(&self.n.ty(self.tck.expr_ty(i))),
                self.expr(x),
                self.expr(i)
            ),
            hir::ExprKind::Struct(qp, fs, base) => {
                let adt = match self.tck.expr_ty(e).kind() {
                    ty::Adt(a, _) => self.n.dp(a.did()),
                    _ => String::new(),
                };
                let b = match base {
                    hir::StructTailExpr::Base(b) => self.expr(b),
                    _ => "null".into(),
                };
                format!(
                    "\"k\":\"struct\",\"adt\":\"{}\",\"ctor\":\"{}\",\"fields\":[{}],\"base\":{}",
                    esc(&adt),
                    esc(&self.res(self.tck.qpath_res(qp, e.hir_id))),
                    fs.iter()
                        .map(|f| format!("{{\"n\":\"{}\",\"e\":{}}}", f.ident, self.expr(f.expr)))
                        .collect::<Vec<_>>()
                        .join(","),
                    b
                )
            }
            hir::ExprKind::Closure(c) => {
                let b = self.n.tcx.hir_body(c.body);
                let tck2 = self.n.tcx.typeck(c.def_id);
                let cx2 = Cx { n: self.n, tck: tck2 };
                format!(
                    "\"k\":\"closure\",\"def\":\"{}\",\"async\":{},\"params\":[{}],\"body\":{}",
                    esc(&self.n.dp(c.def_id.to_def_id())),
                    matches!(c.kind, hir::ClosureKind::Coroutine(..) | hir::ClosureKind::CoroutineClosure(..)),
                    b.params.iter().map(|p| cx2.pat(p.pat)).collect::<Vec<_>>().join(","),
                    cx2.expr(b.value)
                )
            }
            hir::ExprKind::Ret(x) => format!("\"k\":\"ret\",\"e\":{}", self.oe(x)),
            hir::ExprKind::Break(_, x) => format!("\"k\":\"break\",\"e\":{}", self.oe(x)),
            hir::ExprKind::Continue(_) => "\"k\":\"continue\"".into(),
            hir::ExprKind::Loop(b, _, src, _) => format!(
                "\"k\":\"loop\",\"src\":\"{}\",\"body\":{}",
                match src {
                    hir::LoopSource::Loop => "Loop",
                    hir::LoopSource::While => "While",
                    hir::LoopSource::ForLoop => "ForLoop",
                },
                self.block(b)
            ),
            hir::ExprKind::Block(b, _) => {
                let s = self.block(b);
                return format!("{},{}}}", &s[..s.len() - 1], sp);
            }
            hir::ExprKind::AddrOf(_, m, x) => format!("\"k\":\"ref\",\"mut\":{},\"e\":{}", m.is_mut(), self.expr(x)),
            hir::ExprKind::Cast(x, _) => format!(
                "\"k\":\"cast\",\"ty\":\"{}\",\"from\":\"{}\",\"e\":{}",
                esc(&self.n.ty(self.tck.expr_ty(e))),
                esc(&self.n.ty(self.tck.expr_ty(x))),
                self.expr(x)
            ),
            hir::ExprKind::Tup(xs) => {
                format!("\"k\":\"tuple\",\"es\":[{}]", xs.iter().map(|a| self.expr(a)).collect::<Vec<_>>().join(","))
            }
            hir::ExprKind::Array(xs) => {
                format!("\"k\":\"array\",\"es\":[{}]", xs.iter().map(|a| self.expr(a)).collect::<Vec<_>>().join(","))
            }
            hir::ExprKind::Repeat(x, _) => format!("\"k\":\"array\",\"es\":[{}]", self.expr(x)),
            hir::ExprKind::DropTemps(x) => return self.expr(x),
            hir::ExprKind::Use(x, _) => return self.expr(x),
            hir::ExprKind::Type(x, _) => return self.expr(x),
            hir::ExprKind::Yield(x, _) => format!("\"k\":\"yield\",\"e\":{}", self.expr(x)),
            hir::ExprKind::ConstBlock(_) => "\"k\":\"other\",\"what\":\"constblock\"".into(),
            _ => "\"k\":\"other\",\"what\":\"unknown\"".into(),
        };
        format!("{{{},{}}}", body, sp)
    }
}

pub fn dump<'tcx>(n: &Names<'tcx>, out: &str, target: &str) -> usize {
    let tcx = n.tcx;
    let mut rows: Vec<(String, String)> = Vec::new();
    for ldid in tcx.hir_body_owners() {
        match tcx.def_kind(ldid) {
            DefKind::Closure | DefKind::InlineConst | DefKind::AnonConst => continue,
            _ => {}
        }
        let path = n.dp(ldid.to_def_id());
        let body = tcx.hir_body_owned_by(ldid);
        let tck = tcx.typeck(ldid);
        let cx = Cx { n, tck };
        let params: Vec<String> = body.params.iter().map(|p| cx.pat(p.pat)).collect();
        let kind = format!("{:?}", tcx.def_kind(ldid));
        let kind = kind.split(|c: char| !c.is_alphanumeric()).next().unwrap_or("").to_string();
        let js = format!(
            "{{\"f\":\"{}\",\"kind\":\"{}\",\"span\":\"{}\",\"params\":[{}],\"body\":{}}}",
            esc(&path),
            kind,
            n.sp_range(tcx.hir_span_with_body(tcx.local_def_id_to_hir_id(ldid))),
            params.join(","),
            cx.expr(body.value)
        );
        rows.push((path, js));
    }
    let cnt = rows.len();
    write_with_index(out, &format!("{}.hir.jsonl", target), &rows);
    cnt
}
