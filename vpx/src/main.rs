//! vpx — fact extractor for the varpulis static checks.
//!
//! A `rustc_private` driver injected with RUSTC_WORKSPACE_WRAPPER under `cargo +nightly check`.
//! For every workspace crate (crate name starts with `varpulis`) it writes into $VPX_OUT:
//!   <target>.items.jsonl   structs / enums / fns (signatures, visibility, trait impl links)
//!   <target>.hir.jsonl     type-checked HIR bodies as compact JSON trees   (+ .idx: path \t offset \t len)
//!   <target>.mir.jsonl     MIR (phase Built, captured through a mir_built provider override) (+ .idx)
//!   <target>.calls.jsonl   flat call-site index
//!   <target>.fieldacc.jsonl flat field access index
//!   <target>.meta.json     counts (owners, captured bodies) used by the freshness / fail-closed test
//! No per-property logic lives here.
#![feature(rustc_private)]
#![allow(clippy::all)]
extern crate rustc_abi;
extern crate rustc_ast;
extern crate rustc_data_structures;
extern crate rustc_driver;
extern crate rustc_hir;
extern crate rustc_interface;
extern crate rustc_middle;
extern crate rustc_span;

mod hirdump;
mod items;
mod mirdump;

use rustc_data_structures::steal::Steal;
use rustc_driver::Compilation;
use rustc_middle::mir;
use rustc_middle::ty::{self, TyCtxt};
use rustc_span::def_id::{DefId, LocalDefId};
use std::fmt::Write;
use std::sync::Mutex;

type MirBuiltFn = for<'tcx> fn(TyCtxt<'tcx>, LocalDefId) -> &'tcx Steal<mir::Body<'tcx>>;
static ORIG: Mutex<Option<MirBuiltFn>> = Mutex::new(None);
pub struct Captured(pub LocalDefId, pub mir::Body<'static>);
unsafe impl Send for Captured {}
static BODIES: Mutex<Vec<Captured>> = Mutex::new(Vec::new());

fn my_mir_built<'tcx>(tcx: TyCtxt<'tcx>, def: LocalDefId) -> &'tcx Steal<mir::Body<'tcx>> {
    let orig = ORIG.lock().unwrap().unwrap();
    let r = orig(tcx, def);
    let b: mir::Body<'tcx> = r.borrow().clone();
    let b: mir::Body<'static> = unsafe { std::mem::transmute(b) };
    BODIES.lock().unwrap().push(Captured(def, b));
    r
}

pub fn esc(s: &str) -> String {
    let mut o = String::with_capacity(s.len() + 2);
    for c in s.chars() {
        match c {
            '"' => o.push_str("\\\""),
            '\\' => o.push_str("\\\\"),
            '\n' => o.push_str("\\n"),
            '\t' => o.push_str("\\t"),
            '\r' => o.push_str("\\r"),
            c if (c as u32) < 0x20 => {
                let _ = write!(o, "\\u{:04x}", c as u32);
            }
            c => o.push(c),
        }
    }
    o
}

/// Shared naming helpers: canonical, crate-prefixed def paths and type strings.
pub struct Names<'tcx> {
    pub tcx: TyCtxt<'tcx>,
    /// crate name, with `@bin` appended for executables
    pub k: String,
}

fn fix_crate(s: &str, k: &str) -> String {
    // replace the path keyword `crate::` (not a suffix of a longer identifier) by `<k>::`
    let b = s.as_bytes();
    let mut o = String::with_capacity(s.len() + 16);
    let mut i = 0;
    while i < b.len() {
        if b[i..].starts_with(b"crate::") && (i == 0 || !(b[i - 1].is_ascii_alphanumeric() || b[i - 1] == b'_')) {
            o.push_str(k);
            o.push_str("::");
            i += 7;
        } else {
            // push one full char
            let ch = s[i..].chars().next().unwrap();
            o.push(ch);
            i += ch.len_utf8();
        }
    }
    o
}

impl<'tcx> Names<'tcx> {
    pub fn dp(&self, did: DefId) -> String {
        let s = rustc_middle::ty::print::with_no_visible_paths!(rustc_middle::ty::print::with_no_trimmed_paths!(
            rustc_middle::ty::print::with_crate_prefix!(self.tcx.def_path_str(did))
        ));
        fix_crate(&s, &self.k)
    }
    pub fn dp_args(&self, did: DefId, args: ty::GenericArgsRef<'tcx>) -> String {
        let args = self.tcx.erase_and_anonymize_regions(args);
        let s = rustc_middle::ty::print::with_no_visible_paths!(rustc_middle::ty::print::with_no_trimmed_paths!(
            rustc_middle::ty::print::with_crate_prefix!(self.tcx.def_path_str_with_args(did, args))
        ));
        let s = s.replace("'{erased} ", "").replace("'{erased}, ", "").replace("'{erased}", "'_");
        fix_crate(&s, &self.k)
    }
    pub fn ty(&self, t: ty::Ty<'tcx>) -> String {
        let t = self.tcx.erase_and_anonymize_regions(t);
        let s = rustc_middle::ty::print::with_no_visible_paths!(rustc_middle::ty::print::with_no_trimmed_paths!(
            rustc_middle::ty::print::with_crate_prefix!(format!("{:?}", t))
        ));
        let s = s.replace("'{erased} ", "").replace("'{erased}, ", "").replace("'{erased}", "'_");
        fix_crate(&s, &self.k)
    }
    pub fn sp(&self, s: rustc_span::Span) -> String {
        let sm = self.tcx.sess.source_map();
        let lo = sm.lookup_char_pos(s.lo());
        format!("{}:{}:{}", esc(&lo.file.name.prefer_local_unconditionally().to_string()), lo.line, lo.col.0 + 1)
    }
    pub fn sp_range(&self, s: rustc_span::Span) -> String {
        let sm = self.tcx.sess.source_map();
        let lo = sm.lookup_char_pos(s.lo());
        let hi = sm.lookup_char_pos(s.hi());
        format!(
            "{}:{}:{}-{}:{}",
            esc(&lo.file.name.prefer_local_unconditionally().to_string()),
            lo.line,
            lo.col.0 + 1,
            hi.line,
            hi.col.0 + 1
        )
    }
    pub fn exp(&self, s: rustc_span::Span) -> String {
        if s.from_expansion() {
            esc(&s.ctxt().outer_expn_data().kind.descr().to_string())
        } else {
            String::new()
        }
    }
}

pub fn write_with_index(dir: &str, name: &str, rows: &[(String, String)]) {
    // rows: (key, json line without newline)
    let mut data = String::new();
    let mut idx = String::new();
    for (k, js) in rows {
        let off = data.len();
        data.push_str(js);
        data.push('\n');
        let _ = writeln!(idx, "{}\t{}\t{}", k, off, js.len());
    }
    std::fs::write(format!("{}/{}", dir, name), data).expect("vpx: write facts");
    std::fs::write(format!("{}/{}.idx", dir, name), idx).expect("vpx: write idx");
}

struct Cb;
impl rustc_driver::Callbacks for Cb {
    fn config(&mut self, config: &mut rustc_interface::interface::Config) {
        config.override_queries = Some(|_sess, providers| {
            *ORIG.lock().unwrap() = Some(providers.queries.mir_built);
            providers.queries.mir_built = my_mir_built;
        });
    }
    fn after_analysis<'tcx>(&mut self, _c: &rustc_interface::interface::Compiler, tcx: TyCtxt<'tcx>) -> Compilation {
        let krate = tcx.crate_name(rustc_span::def_id::LOCAL_CRATE).to_string();
        if !krate.starts_with("varpulis") {
            return Compilation::Continue;
        }
        let out = match std::env::var("VPX_OUT") {
            Ok(o) => o,
            Err(_) => return Compilation::Continue,
        };
        let is_bin = tcx.crate_types().iter().any(|t| matches!(t, rustc_session_crate_type::Executable));
        let k = if is_bin { format!("{}@bin", krate) } else { krate.clone() };
        let target = if is_bin { format!("{}.bin", krate) } else { format!("{}.lib", krate) };
        std::fs::create_dir_all(&out).ok();
        let names = Names { tcx, k: k.clone() };

        // make sure every body has been built (and hence captured) — cargo check does not
        // necessarily force all of them before after_analysis on every path
        let owners: Vec<LocalDefId> = tcx.hir_body_owners().collect();
        for &o in &owners {
            let _ = tcx.mir_built(o);
        }

        let n_items = items::dump(&names, &out, &target);
        let n_hir = hirdump::dump(&names, &out, &target);
        let bodies = std::mem::take(&mut *BODIES.lock().unwrap());
        let n_mir = mirdump::dump(&names, &out, &target, &bodies);
        let meta = format!(
            "{{\"crate\":\"{}\",\"target\":\"{}\",\"owners\":{},\"captured\":{},\"hir_bodies\":{},\"items\":{}}}\n",
            esc(&k),
            esc(&target),
            owners.len(),
            n_mir,
            n_hir,
            n_items
        );
        std::fs::write(format!("{}/{}.meta.json", out, target), meta).expect("vpx: write meta");
        eprintln!("[vpx] {} owners={} mir={} hir={} items={}", target, owners.len(), n_mir, n_hir, n_items);
        Compilation::Continue
    }
}

use rustc_session::config::CrateType as rustc_session_crate_type;
extern crate rustc_session;

fn main() {
    let mut args: Vec<String> = std::env::args().collect();
    if args.len() > 1 && (args[1].ends_with("rustc") || args[1].ends_with("rustc.exe")) {
        args.remove(1);
    }
    rustc_driver::run_compiler(&args, &mut Cb);
}
