#!/bin/bash
# placeholder; replaced when the extractor exists
exit 0
