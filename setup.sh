#!/bin/bash
# Build the extractor and warm the dependency caches / fact caches for all configurations (offline).
set -e
cd "$(dirname "$0")"
export CARGO_NET_OFFLINE=true
(cd vpx && cargo build --offline 2>&1 | tail -3)
python3 vpr/extract.py default
python3 vpr/extract.py raft || echo "WARN: raft configuration could not be extracted"
python3 vpr/extract.py persistent || echo "WARN: persistent configuration could not be extracted"
