"""C01 — every reported match is a genuine occurrence (R-GUARD capture guards, R-TOTAL filter translation, R-ORDER negation)."""
import re
from vpr import hirq as H
from vpr.mir import op_place

EXPLANATION = (
    "(1) R-GUARD on MIR: every site that records an event in a run (Run::push*, captured.insert, AndState::complete_branch) in "
    "advance_run_shared / try_start_run_shared / advance_and_state is edge-dominated by the true outcome of the step test "
    "(event_matches_state, or the AND branch's type equality plus predicate); event_matches_state returns true only past the "
    "type comparison and the predicate evaluation. (2) R-TOTAL on HIR: expr_to_sase_predicate returns Option and all callers "
    "map None to 'no predicate' (accept everything), so no return path of the translator may yield None. (3) R-ORDER on MIR: "
    "in each SASE entry point check_global_negations dominates the run loops, and the entry points issue the same engine steps."
)
DECIDED = ["capture is guarded by the step's type + predicate test on every path", "filter translation is total (never silently drops a filter)",
           "global negation check precedes run advancement in every entry point", "an invalidated run is dropped before it can advance (shared with C02)"]
NOT_DECIDED = ["that predicates evaluate correctly (see C08/C09)", "order of events inside a match", "partition discipline (decided under C04)"]

S = "varpulis_runtime::sase::"
CAPTURE = (S + "Run::push", S + "Run::push_at", S + "Run::push_at_kleene", S + "AndState::complete_branch")
STEP = S + "event_matches_state"
EVALP = S + "eval_predicate"
TRANSLATOR = "varpulis_runtime::engine::compiler::expr_to_sase_predicate"


def capture_sites(b):
    out = []
    for bb, t in b.calls():
        c = t["inst"] or t["callee"]
        if c in CAPTURE or t["callee"] in CAPTURE:
            out.append((bb, t, c.rsplit("::", 1)[1]))
        elif t["callee"].endswith("HashMap::<K, V, S>::insert") or t["callee"].endswith("::insert"):
            # captured.insert(alias, event): receiver is the run's `captured` map
            a0 = op_place(t["args"][0]) if t["args"] else None
            d = b.desc(t["args"][0]) if t["args"] else ""
            if "captured" in d:
                out.append((bb, t, "captured.insert"))
    return out


def is_step_guard(b, g):
    if g["kind"] == "call" and g["call"]["callee"] == STEP and g["taken"] == "true":
        return "step"
    return None


def and_branch_guards(b, gs):
    """type equality on event_type and the predicate flag both true"""
    type_eq = False
    pred = False
    for g in gs:
        if g["taken"] != "true":
            continue
        txt = g.get("text", "")
        if g["kind"] == "call" and g["call"]["callee"].endswith("PartialEq::eq") and "event_type" in txt:
            type_eq = True
        if g["kind"] == "local" or g["kind"] == "call":
            if "pred_matches" in txt or (g["kind"] == "call" and g["call"]["callee"].endswith("is_none_or")):
                pred = True
    return type_eq and pred


def run_guards(ctx):
    F = ctx.facts()
    n = 0
    for fn in (S + "advance_run_shared", S + "SaseEngine::try_start_run_shared", S + "advance_and_state"):
        b = ctx.need_body(fn, rule="capture-guard")
        # is pred_matches computed from eval_predicate (closure passed to is_none_or calls eval_predicate)?
        for bb, t, what in capture_sites(b):
            n += 1
            gs = b.guards_of(bb)
            key = "%s:%s@%s" % (fn.rsplit("::", 1)[1], what, ordinal(ctx, fn, what))
            if any(is_step_guard(b, g) for g in gs):
                ctx.ok("capture-guard", key, "under event_matches_state == true", site=t["sp"])
                continue
            if and_branch_guards(b, gs):
                ctx.ok("capture-guard", key, "under branch type equality && pred_matches", site=t["sp"])
                continue
            # indirection through a matched-branch local: guarded by `Some` discriminant of a local whose Some-assignments are guarded
            # (the local is found by role, not by name: any plain local L with a guard discr(L) == Some)
            ind = None
            for g in gs:
                if g["kind"] == "discr" and g["taken"] == [1]:
                    m_ = re.match(r"^discr\(([A-Za-z_][A-Za-z0-9_]*)\)$", g["text"])
                    if m_ and matched_branch_guarded(ctx, b, m_.group(1)):
                        ind = m_.group(1)
            if ind is not None:
                ctx.ok("capture-guard", key, "under %s == Some, assigned only under type equality && pred_matches" % ind, site=t["sp"])
                continue
            ctx.violation("capture-guard", key, "%s records the event in the run without being dominated by the step test (guards: %s)" % (
                what, "; ".join("%s=%s" % (g.get("text", "?")[:50], g["taken"]) for g in gs[-5:])), site=t["sp"])
    ctx.floor("capture-guard", "capture sites", n, 9)
    # event_matches_state: every `true` return is past the type comparison and the predicate call
    b = ctx.need_body(STEP, rule="step-test")
    type_cmp = b.call_blocks(lambda t: t["callee"].endswith("PartialEq::ne") or t["callee"].endswith("PartialEq::eq"))
    pred_call = b.call_blocks(lambda t: t["callee"] == EVALP)
    if not type_cmp or not pred_call:
        ctx.violation("step-test", "shape", "event_matches_state no longer compares the event type (%d) or evaluates the predicate (%d)" % (len(type_cmp), len(pred_call)))
    else:
        # blocks assigning `true` to the return place
        trues = []
        for bb in sorted(b.live):
            for s in b.stmts(bb):
                if s["d"]["l"] == 0 and not s["d"]["p"] and s["k"] == "use" and s["o"][0].get("k", {}).get("val") in ("true", "const true"):
                    trues.append(bb)
        if not trues:
            ctx.anchor_lost("step-test", "no `true` return found in event_matches_state")
        for tb in trues:
            # the state's event_type / predicate are Options: when Some, the test must be on the path. Structural form:
            # every path entry->tb passing the `Some` edge of the discriminant switch passes the comparison.
            gs = b.guards_of(tb)
            ok_pred = all(not (g["kind"] == "call" and g["call"]["callee"] == EVALP and g["taken"] != "true") for g in gs)
            # must-pass: removing the comparison blocks and the None edges
            bad = []
            for blocks, name in ((type_cmp, "type comparison"), (pred_call, "predicate evaluation")):
                sw = some_switch_before(b, blocks)
                if sw is None:
                    bad.append(name + " (no Option test found)")
                    continue
                s, none_edge = sw
                r = b.reachable(0, avoid_blocks=set(blocks), avoid_edges=[none_edge])
                if tb in r:
                    bad.append(name)
            if bad or not ok_pred:
                ctx.violation("step-test", "true-path", "event_matches_state can return true without the %s" % ", ".join(bad or ["predicate holding"]), site=b.js["span"])
            else:
                ctx.ok("step-test", "true-path", "type comparison and predicate evaluation on every Some-path to `true`")


_ord = {}


def ordinal(ctx, fn, what):
    k = (id(ctx), fn, what)
    _ord[k] = _ord.get(k, 0) + 1
    return _ord[k]


def some_switch_before(b, blocks):
    """the discriminant switch (on an Option) that dominates `blocks`; returns (switch bb, (bb, none-target))"""
    for blk in blocks:
        for g in reversed(b.guards_of(blk)):
            if g["kind"] == "discr":
                t = b.term(g["sw"])
                # the edge NOT taken towards blk is the None edge
                for v, tgt in t["cases"]:
                    if not (tgt == blk or b.dominates(tgt, blk)):
                        return g["sw"], (g["sw"], tgt)
                if not (t["otherwise"] == blk or b.dominates(t["otherwise"], blk)):
                    return g["sw"], (g["sw"], t["otherwise"])
    return None


def matched_branch_guarded(ctx, b, name):
    ls = b.locals_named(name)
    if not ls:
        return False
    ok = True
    n = 0
    for l in ls:
        for d in b.defs.get(l, ()):
            if d[0] != "stmt":
                continue
            s = d[3]
            if s["k"] == "agg" and s.get("agg", "").endswith("Option::None"):
                continue
            n += 1
            if not and_branch_guards(b, b.guards_of(d[1])):
                ok = False
    return ok and n >= 1


# ------------------------------------------------------------------ totality

def can_be_none(e, self_path, total_fns):
    e = H.strip(e)
    if e is None:
        return True
    k = e.get("k")
    if k == "path":
        return e["res"].endswith("Option::None")
    if k == "call":
        c = e["callee"]
        if isinstance(c, str):
            p = c.split(":", 1)[1]
            if p.endswith("Option::Some"):
                return False
            if p == self_path or p in total_fns:
                return False
        return True
    if k == "mcall":
        return True
    if k == "block":
        return can_be_none(e["tail"], self_path, total_fns) if e["tail"] is not None else diverges_not(e)
    if k == "match":
        return any(can_be_none(a["body"], self_path, total_fns) for a in e["arms"])
    if k == "if":
        return can_be_none(e["then"], self_path, total_fns) or (e["else"] is None or can_be_none(e["else"], self_path, total_fns))
    if k in ("ret", "break", "continue"):
        return False  # diverges; the returned value is checked on its own
    if k == "try":
        return False  # value of `x?` is the Some payload; the None path is a return checked on its own
    return True


def diverges_not(blk):
    # a block without tail whose last statement is a return/break diverges (no value); otherwise unit (not an Option)
    return False


def run_total(ctx):
    F = ctx.facts()
    h = ctx.need_hir(TRANSLATOR, rule="total")
    it = F.fn_item(TRANSLATOR)
    if not it["output"].startswith("core::option::Option<"):
        ctx.ok("total", "signature", "translator no longer returns Option (%s): nothing to drop" % it["output"])
        return
    # how do the callers treat None?
    callers = [c for c in F.calls if False]
    sites = [c for c in F.calls_to(TRANSLATOR)] + []
    hir_callers = 0
    lossy = 0
    for p in F.find_fns(r"^varpulis_runtime::engine::compiler::", "hir"):
        hh = F.hir(p)
        for x in H.walk(hh["body"]):
            if x.get("k") == "mcall" and x["method"] == "and_then" and x["args"]:
                a = H.strip(x["args"][0])
                if a.get("k") == "path" and a["res"] == "def:" + TRANSLATOR:
                    hir_callers += 1
                    lossy += 1
    ctx.floor("total", "callers mapping None to 'no predicate' (filter.as_ref().and_then(translator))", hir_callers, 5)
    bad = []
    # return positions: body tail, explicit returns, and operands of `?`
    def check(e, what):
        if can_be_none(e, TRANSLATOR, set()):
            bad.append((what, e))
    body = h["body"]
    check(body, "tail")
    for x in H.walk(body):
        if x.get("k") == "ret":
            check(x["e"], "return")
        elif x.get("k") == "try":
            check(x["e"], "?-operand")
    if not bad:
        ctx.ok("total", "no-none-path", "%d return positions / ?-operands examined" % (1 + sum(1 for x in H.walk(body) if x.get("k") in ("ret", "try"))))
    seen = set()
    for what, e in bad:
        # name the arm(s) that produce None
        nones = [x for x in H.walk(e) if x.get("k") == "path" and x["res"].endswith("Option::None")]
        site = nones[0]["sp"] if nones else e.get("sp")
        key = "none-path:%s" % what
        if key in seen:
            continue
        seen.add(key)
        ctx.violation("total", key, "expr_to_sase_predicate can return None (%s: `%s`); every caller turns None into 'no predicate', so the step then accepts every event of its type" % (what, H.show(e)[:100]), site=site)


# ------------------------------------------------------------------ negation order

ENTRIES = (S + "SaseEngine::process_shared", S + "SaseEngine::process_shared_with_result", S + "SaseEngine::process_instrumented")
STEPS = {
    S + "SaseEngine::update_watermark": "update_watermark",
    S + "SaseEngine::cleanup_timeouts": "cleanup_timeouts",
    S + "SaseEngine::check_global_negations": "check_global_negations",
    S + "SaseEngine::process_partition_shared": "advance_partition",
    S + "SaseEngine::process_runs_shared": "advance_runs",
    S + "SaseEngine::try_start_run_shared": "try_start",
    S + "SaseEngine::handle_backpressure": "admit",
    S + "SaseEngine::handle_backpressure_partitioned": "admit_partitioned",
}


def run_order(ctx):
    seqs = {}
    for fn in ENTRIES:
        b = ctx.need_body(fn, rule="negation-order")
        neg = b.call_blocks({S + "SaseEngine::check_global_negations"})
        adv = b.call_blocks({S + "SaseEngine::process_partition_shared", S + "SaseEngine::process_runs_shared"})
        start = b.call_blocks({S + "SaseEngine::try_start_run_shared"})
        name = fn.rsplit("::", 1)[1]
        if len(adv) < 2 or not neg:
            ctx.violation("negation-order", name, "%s: expected a check_global_negations call and both run loops (found %d, %d)" % (name, len(neg), len(adv)))
            continue
        bad = [a for a in adv + start if not b.blocks_dominate(neg, a)]
        if bad:
            ctx.violation("negation-order", name, "%s: runs are advanced/started on a path that has not applied the global negations to this event" % name, site=b.term(bad[0])["sp"])
        else:
            ctx.ok("negation-order", name, site=b.term(neg[0])["sp"])
        # sequence of engine steps in dominance order
        calls = [(bb, STEPS[t["inst"] or t["callee"]]) for bb, t in b.calls() if (t["inst"] or t["callee"]) in STEPS]
        order = sorted(calls, key=lambda x: len(b.dom[x[0]]))
        seqs[name] = [s for _, s in order]
    if len(seqs) == len(ENTRIES):
        ref = seqs["process_shared"]
        for name, s in seqs.items():
            if sorted(s) != sorted(ref):
                ctx.violation("entry-agreement", name, "%s issues engine steps %s, process_shared issues %s" % (name, s, ref))
            else:
                ctx.ok("entry-agreement", name)
        ctx.sample({"entry_step_sequence": seqs})


def run(ctx):
    # the `.not(..)` clause of the statement: an invalidated run must not advance (sub-rule shared with C02)
    from rules import C02 as _c02
    ctx.guard("loop-prologue", lambda: _c02.run_prologue(ctx))
    ctx.guard("capture-guard", lambda: run_guards(ctx))
    ctx.guard("total", lambda: run_total(ctx))
    ctx.guard("negation-order", lambda: run_order(ctx))
    # "each event satisfies its step's filter": translated filters are decided by the SASE comparator
    # (values_compare / compare_values); its arm tables are checked by the rule shared with C08
    from rules import C08
    ctx.guard("arms", lambda: C08.run_comparator(ctx))
