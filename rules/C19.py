"""C19 — checkpoint and restore are invisible in the output (R-FIELDCOV)."""
from vpr import hirq as H
from vpr.fieldcov import check_pair

EXPLANATION = (
    "R-FIELDCOV over the field access index and MIR provenance: for every save/restore pair (Run, KleeneCapture through Run, "
    "SaseEngine, every window type including the partitioned ones, JoinBuffer, PerSourceWatermarkTracker, ColumnarBuffer) a "
    "field counts as runtime state if some function other than constructors, builders and the pair itself writes it; every "
    "runtime-state field must be read by the save function and written by the restore function from a value whose "
    "provenance includes the checkpoint parameter (a constant / default initialiser is reported). Variant coverage: every "
    "RuntimeOp variant whose payload holds runtime state must be handled in both Engine::create_checkpoint and "
    "Engine::restore_checkpoint. Exceptions are one named field each with a reason. Faithful copy: no save or restore "
    "function applies a reordering (sort*, reverse, rev, rotate, swap) or dropping (dedup*, retain, truncate, skip, take, "
    "filter, pop) collection call: restored collections are the saved ones element for element and in order."
)
DECIDED = ["which runtime-state fields flow into the checkpoint and back", "which stateful operators the engine checkpoint dispatchers cover", "save / restore neither reorder nor drop elements of state collections"]
NOT_DECIDED = ["that restored values reproduce behaviour", "sub-millisecond timestamps (decided under C20)"]

R = "varpulis_runtime::"
W = R + "window::"
S = R + "sase::"

# (struct, save fn, restore fn, {field: reason})
PAIRS = [
    (S + "Run", S + "Run::checkpoint", S + "Run::from_checkpoint", {
        "started_at": "wall-clock Instant (processing-time timeout restarts at restore; documented)",
        "deadline": "wall-clock Instant",
        "last_event_at": "wall-clock Instant",
    }),
    (S + "KleeneCapture", S + "Run::checkpoint", S + "Run::from_checkpoint", {
        "arena": "ZDD arena is rebuilt by extend() from the restored events",
        "handle": "rebuilt by extend() from the restored events",
        "next_var": "rebuilt by extend() from the restored events",
        "events": "saved as kleene_events and re-inserted through KleeneCapture::extend in from_checkpoint",
    }),
    (S + "SaseEngine", S + "SaseEngine::checkpoint", S + "SaseEngine::restore", {
        "last_cleanup": "wall-clock Instant of the last processing-time sweep",
        "metrics": "monitoring counters, not output-relevant",
        "global_negations": "configured by add_negation while the program is loaded; a checkpoint is restored into an engine freshly loaded from the same program",
    }),
    (W + "TumblingWindow", W + "TumblingWindow::checkpoint", W + "TumblingWindow::restore", {}),
    (W + "SlidingWindow", W + "SlidingWindow::checkpoint", W + "SlidingWindow::restore", {}),
    (W + "CountWindow", W + "CountWindow::checkpoint", W + "CountWindow::restore", {}),
    (W + "SlidingCountWindow", W + "SlidingCountWindow::checkpoint", W + "SlidingCountWindow::restore", {}),
    (W + "SessionWindow", W + "SessionWindow::checkpoint", W + "SessionWindow::restore", {}),
    (W + "PartitionedSessionWindow", W + "PartitionedSessionWindow::checkpoint", W + "PartitionedSessionWindow::restore", {}),
    (W + "PartitionedSlidingWindow", W + "PartitionedSlidingWindow::checkpoint", W + "PartitionedSlidingWindow::restore", {}),
    (W + "PartitionedTumblingWindow", W + "PartitionedTumblingWindow::checkpoint", W + "PartitionedTumblingWindow::restore", {}),
    (R + "join::JoinBuffer", R + "join::JoinBuffer::checkpoint", R + "join::JoinBuffer::restore", {
        "last_gc": "GC cadence only; correlation re-filters by the window cutoff",
        "expiry_queue": "rebuilt in restore from the restored events' timestamps (one entry per restored event)",
    }),
    (R + "watermark::PerSourceWatermarkTracker", R + "watermark::PerSourceWatermarkTracker::checkpoint", R + "watermark::PerSourceWatermarkTracker::restore", {}),
    (R + "columnar::ColumnarBuffer", R + "columnar::ColumnarBuffer::checkpoint", R + "columnar::ColumnarBuffer::restore", {
        "columns": "lazily rebuilt cache (cleared on restore)",
    }),
]


def run_pairs(ctx):
    for struct, save, restore, exc in PAIRS:
        ctx.guard("fieldcov", lambda struct=struct, save=save, restore=restore, exc=exc: check_pair(ctx, struct, save, restore, exc))


# calls that reorder or drop elements of a collection: neither the save nor the restore function may apply them to state
REORDER = {"sort", "sort_by", "sort_by_key", "sort_by_cached_key", "sort_unstable", "sort_unstable_by", "sort_unstable_by_key",
           "reverse", "rotate_left", "rotate_right", "swap", "rev"}
DROP = {"dedup", "dedup_by", "dedup_by_key", "retain", "retain_mut", "truncate", "swap_remove", "skip", "take", "step_by",
        "filter", "take_while", "skip_while", "pop", "pop_front", "pop_back"}
COLLECTION_OWNERS = ("alloc::slice::", "<impl [T]>", "alloc::vec::Vec","alloc::collections::vec_deque::VecDeque", "core::slice::", "core::iter::traits::iterator::Iterator",
                     "core::iter::traits::double_ended::DoubleEndedIterator", "indexmap::", "std::collections::", "alloc::collections::")
# reasoned exceptions: (function, method) -> why the call does not change the restored state
FAITHFUL_EXCEPTIONS = {}


def run_faithful(ctx):
    """A restore must rebuild the saved collections element for element and in the saved order (sequence operators, joins and
    windows pick partners / emit by position: JoinBuffer::try_correlate takes the LAST buffered element inside the window)."""
    F = ctx.facts()
    fns = []
    for _, save, restore, _ in PAIRS:
        for f in (save, restore):
            if f not in fns:
                fns.append(f)
    n = 0
    for fn in fns:
        role = "restore" if fn.endswith(("::restore", "::from_checkpoint")) else "save"
        bodies = F.bodies_of(fn)
        if not bodies:
            ctx.anchor_lost("faithful", "%s not found" % fn)
            continue
        hits = []
        for p in bodies:
            b = ctx.body(p)
            if b is None:
                continue
            for bb, t in b.calls():
                n += 1
                callee = t.get("inst") or t["callee"]
                name = callee.rsplit("::", 1)[-1]
                if name not in REORDER and name not in DROP:
                    continue
                if not any(o in callee or o in t["callee"] for o in COLLECTION_OWNERS):
                    continue  # Option::take, mem::swap, ... are not collection operations
                if (fn, name) in FAITHFUL_EXCEPTIONS:
                    continue
                hits.append((name, t["sp"], callee))
        short = fn.split("varpulis_runtime::", 1)[1]
        # vacant-only restore: `map.entry(k).or_insert_with(|| <built from the checkpoint>)` whose result is not written through
        # restores nothing for a key that already exists — and a freshly loaded engine pre-registers its sources / partitions
        if role == "restore":
            from vpr.prov import forward_uses
            for p in bodies:
                b = ctx.body(p)
                if b is None:
                    continue
                for bb, t in b.calls():
                    callee = t.get("inst") or t["callee"]
                    if callee.rsplit("::", 1)[-1] in ("or_insert_with", "or_insert", "or_default", "or_insert_with_key") and "Entry" in callee:
                        sinks = forward_uses(b, t["dest"]["l"])
                        written = any(s[0] == "field_write" for s in sinks) or any(s[0] == "call" and s[4] == 0 and not s[1].endswith(("::clone", "::deref")) for s in sinks)
                        # direct field assignments through the returned reference show up as writes to places rooted at the dest local
                        for b2 in sorted(b.live):
                            for s2 in b.stmts(b2):
                                if s2["d"]["l"] == t["dest"]["l"] and s2["d"]["p"]:
                                    written = True
                        if not written:
                            hits.append(("vacant-only " + callee.rsplit("::", 1)[-1], t["sp"], callee))
        if hits:
            for name, sp, callee in hits:
                if name.startswith("vacant-only"):
                    ctx.violation("faithful", "%s:%s" % (short, name.replace(" ", ":")), "%s restores an entry only through `%s` and never writes through the returned reference: a key that already exists keeps its pre-restore value (a freshly loaded engine pre-registers its sources / partitions, so exactly those are not restored)" % (short, name.split(" ", 1)[1]), site=sp)
                    continue
                kind = "reorders" if name in REORDER else "may drop elements of"
                ctx.violation("faithful", "%s:%s" % (short, name), "%s calls %s, which %s a collection on the %s path: the restored state is no longer the saved state element for element and in order (operators that pick by position — the join's last-in-window partner, window emission order — answer differently after a restore)" % (
                    short, name, kind, role), site=sp)
        else:
            ctx.ok("faithful", short, "no reordering / dropping collection call on the %s path" % role)
    ctx.floor("faithful", "calls scanned in save / restore functions", n, 100)


def variants_handled(h, enum_path):
    """variants of `enum_path` named in any pattern (match arm / if let) of the function"""
    out = set()

    def pats(p):
        if p is None:
            return
        k = p["k"]
        if k == "variant":
            nm = p["path"].split(":", 1)[1]
            if nm.startswith(enum_path + "::"):
                out.add(nm.rsplit("::", 1)[1])
            for s in (p.get("sub") or []):
                pats(s)
            for s in (p.get("fields") or {}).values():
                pats(s)
        elif k == "tuple":
            for s in p["sub"]:
                pats(s)
        elif k == "or":
            for s in p["alts"]:
                pats(s)
        elif k in ("ref", "bind"):
            pats(p["sub"])

    for x in H.walk(h["body"]):
        if x.get("k") == "match":
            for a in x["arms"]:
                pats(a["pat"])
        elif x.get("k") == "letcond":
            pats(x["pat"])
    return out


# RuntimeOp variants whose payload carries no state that outlives an event (reason each)
STATELESS_OPS = {
    "WhereClosure": "closure filter, no state", "WhereExpr": "expression filter, no state", "Select": "projection", "Emit": "projection",
    "EmitExpr": "projection", "Print": "side effect only", "Log": "side effect only", "Sequence": "marker; the SASE engine of the stream is checkpointed separately",
    "Pattern": "stateless expression over the current batch", "Process": "user function call, no operator state", "To": "sink reference",
    "Having": "filter", "AlertOp": "side effect only", "Enrich": "external lookup (excluded by the property)", "Score": "model inference, no operator state",
    "Forecast": "forecaster model is not part of the checkpoint format (documented as ephemeral)", "TrendAggregate": "Hamlet aggregator (see C25, not claimed)",
    "Concurrent": "execution hint", "Aggregate": "stateless: applied to the window's output batch", "PartitionedAggregate": "stateless: grouping over the current batch",
}


def run_dispatch(ctx):
    F = ctx.facts()
    en = R + "engine::types::RuntimeOp"
    vs = F.variants(en)
    if not vs:
        ctx.anchor_lost("dispatch", "enum RuntimeOp not found")
        return
    hc = ctx.need_hir(R + "engine::Engine::create_checkpoint", rule="dispatch")
    hr = ctx.need_hir(R + "engine::Engine::restore_checkpoint", rule="dispatch")
    saved = variants_handled(hc, en)
    restored = variants_handled(hr, en)
    ctx.floor("dispatch", "RuntimeOp variants handled by create_checkpoint", len(saved), 4)
    for v in vs:
        key = "RuntimeOp::" + v
        if v in saved and v in restored:
            ctx.ok("dispatch", key, "saved and restored")
        elif v in saved or v in restored:
            ctx.violation("dispatch", key, "RuntimeOp::%s is handled by %s but not by %s" % (v, "create_checkpoint" if v in saved else "restore_checkpoint", "restore_checkpoint" if v in saved else "create_checkpoint"))
        elif v in STATELESS_OPS:
            ctx.ok("dispatch", key, "no checkpoint needed: " + STATELESS_OPS[v], nontrivial=False)
        else:
            ctx.violation("dispatch", key, "RuntimeOp::%s holds operator state but neither Engine::create_checkpoint nor Engine::restore_checkpoint has an arm for it: its state is lost by checkpoint/restore" % v)
    ctx.sample({"runtime_op_variants": vs, "saved": sorted(saved), "restored": sorted(restored)})


def run(ctx):
    run_pairs(ctx)
    ctx.guard("dispatch", lambda: run_dispatch(ctx))
    ctx.guard("faithful", lambda: run_faithful(ctx))
