"""Which properties are claimed, with the level text and technique shown in MANIFEST.json."""

P = "Partial: decides necessary structural clauses for every input at once, not the behaviour itself. "

CLAIMED = {
    "C01": {
        "technique": "guard dominance on MIR (capture sites under the step test), totality of the Option-returning filter translator on HIR, must-precede of the negation check",
        "level": P + "Every site recording an event in a run is dominated by the step's type+predicate test; the VPL->SASE filter translator has no None path (callers drop the filter on None); global negations are applied before runs advance in all three entry points.",
    },
    "C02": {
        "technique": "must-precede on MIR, match-arm table of the two run loops against a contract table on HIR, single-capture reachability",
        "level": P + "Existing runs advance before a run is started with the same event in every entry point; both run loops remove a run exactly on Complete/CompleteMulti/Invalidate and keep it otherwise; after a capture no second capture of the same event is reachable; both loops drop timed-out and invalidated runs before advancing them (sibling agreement). That the emitted match is the earliest is not decided.",
    },
    "C03": {
        "technique": "guard dominance / loop re-test analysis on MIR (R-GUARD)",
        "level": P + "Kleene events are accumulated only past the next_var >= max_events test; every pushed match is followed by a results.len() >= max_results re-test that leaves the loop (or the loop runs over take(max_results) with no filter in between), so the cap bounds emitted matches, not examined combinations; limits come from the configured fields. Which subsets are produced is not decided.",
    },
    "C04": {
        "technique": "keyed-state discipline (R-KEYED): classification of every map operation on per-partition containers with key provenance slices through closures and callers",
        "level": P + "Every keyed access to partitioned_runs and the partitioned windows' maps uses Value::to_partition_key of the event's configured partition field; whole-map walks occur only in the listed time-driven / checkpoint / statistics / global-negation functions.",
    },
    "C05": {
        "technique": "who-may-grow + guard dominance on MIR, sibling strategy-arm agreement on HIR, integer-arithmetic site scan, caps shared with C03",
        "level": P + "Runs are pushed only in the two backpressure functions, under len < max_runs or after an eviction (four empty-vector branches listed, max_runs == 0 only); both functions agree per strategy and with the documented behaviour; no panicking integer arithmetic on event-derived values in the SASE event path; Kleene caps as C03. Index panics depending on NFA construction are not decided.",
    },
    "C06": {
        "technique": "recursion-term extraction (R-SHAPE) on HIR compared with the ZDD recurrences",
        "level": P + "Each case of the top-variable comparison of union/intersection/difference/product (arena and stand-alone) builds exactly the term of Minato's recurrence, incl. terminal prefixes. Count/iteration/remapping are not decided.",
    },
    "C07": {
        "technique": "who-may-write via field access index, guard dominance and must-pass-through on MIR (R-COMUT)",
        "level": P + "Nodes are created only in get_or_create under zero-suppression and hash-consing; every replacement of the arena table clears every ZddRef-keyed cache on all paths and gc returns remapped handles. Variable ordering along paths is not decided.",
    },
    "C08": {
        "technique": "match-arm table agreement (R-ARMS) on type-checked HIR",
        "level": P + "Each ordering operator row of every expression evaluator and of the pattern comparator handles all four int/float operand pairs, with the row's own operator, unswapped operands and the integer side widened. Float rounding is not decided.",
    },
    "C11": {
        "technique": "per-variant delegation-cycle analysis on HIR (R-REC) and panicking-i64-arithmetic site scan on MIR (R-ARITH)",
        "level": P + "No Expr variant is passed unchanged around a cycle of evaluator functions (unbounded recursion), and the evaluator module contains no panicking i64 arithmetic. Index/slice panics and user-function recursion are not decided.",
    },
    "C12": {
        "technique": "must-pass-through / at-most-once of the buffer push, forward flow of drained batches, comparison normal forms and marker co-mutation on MIR",
        "level": P + "In each add_shared the arriving event is stored exactly once on every path and drained batches reach the caller; tumbling closes iff event_time >= window_start + duration, session iff event_time - last > gap, count iff len >= count after the push; window_start / last_event_time are reset only together with a buffer drain; partitioned windows delegate to the plain ones.",
    },
    "C13": {
        "technique": "normalised condition / statement-shape extraction on HIR",
        "level": P + "Count-sliding: stores and counts each event once, trims to the last N by a prefix drain, emits exactly under len >= window_size && events_since_emit >= slide_size, returns the whole buffer and resets the counter only then. Time-sliding: prefix eviction by event_time - window_size and slide test against last_emit + slide_interval (strictness not demanded). Partitioned variants delegate.",
    },
    "C14": {
        "technique": "co-mutation (must-pass-through with a cache-known-empty edge) on MIR and sibling feature agreement over the call graph",
        "level": P + "Every ColumnarBuffer method that changes the buffered events also updates timestamps and invalidates the column cache on all paths; for each aggregate the overridden row / shared / columnar paths agree on NaN filtering and field access, and trait defaults delegate. Numeric results are not decided.",
    },
    "C15": {
        "technique": "binary-search precondition (R-SORTED) on MIR; arrival-order writers, last-match selection, window/expiry predicate agreement and key/time provenance on type-checked HIR of JoinBuffer",
        "level": P + "The per-key vector searched with partition_point must be kept sorted by its writers; per-key buffers are appended at the back and evicted from the front only; correlation picks the last in-window element per source, on the in-window side of `arrival - window`; cleanup never expires what correlation accepts; the arriving event is stored, expired and correlated under one to_partition_key value and its own timestamp, stored before it is correlated. That every source is consulted and the field merge are not decided.",
    },
    "C16": {
        "technique": "entry-point / kernel reachability agreement over the call graph, sibling constants on HIR, guard dominance of output requeueing on MIR",
        "level": P + "Each of the four engine entry points reaches each operator kernel (or none does), the chain-depth constants agree, and stream outputs are queued / emitted only in renamed form.",
    },
    "C17": {
        "technique": "guard dominance in add_route, who-may-write the routing table, lookup-key provenance, requeue discipline shared with C16",
        "level": P + "No duplicate routes can be registered, the routing table is written only through add_route/clear, every entry point looks routes up by the current event's own type, chain depth constants agree and un-renamed outputs are never re-routed.",
    },
    "C19": {
        "technique": "state coverage of save/restore pairs (R-FIELDCOV) over the field access index with MIR provenance; variant coverage of the engine dispatchers",
        "level": P + "For 14 save/restore pairs every runtime-state field must be read by the save function and restored from a checkpoint-derived value; every stateful RuntimeOp variant must be handled by create_checkpoint and restore_checkpoint; save / restore functions apply no reordering or dropping collection call. That restored values reproduce behaviour is not decided.",
    },
    "C20": {
        "technique": "inverse arm tables on HIR, lossy-conversion call scan, type-level reachability of f64 through the JSON codec, codec arm table",
        "level": P + "The Value<->SerializableValue converters are a variant bijection; millisecond truncation sites on the save path and the non-finite-float / JSON combination are reported; serialize/deserialize cover every CheckpointFormat variant with matching codecs; serde field attributes on every type reachable from Checkpoint are symmetric (an omitted field is defaultable).",
    },
    "C21": {
        "technique": "must-pass-through / dominance on MIR of the atomic write, save-prune-id ordering and the fallback loop shape",
        "level": P + "FileStore::put writes to a with_extension(\"tmp\") path and renames it into place on every successful path; save dominates prune and the id increment follows both; load_latest_checkpoint tries older ids in a loop; prune deletes only the oldest ids of the ascending list. Crash interleavings inside the file system are not decided.",
    },
    "C22": {
        "technique": "dominance of persist after mutate in the API handlers, snapshot field coverage, put-before-index ordering on MIR",
        "level": P + "Every handler that mutates a tenant's pipelines persists before replying; snapshot fields are filled from the live objects and read back on recovery (status included); the snapshot write precedes the index update and the snapshot delete precedes the index removal; recover() skips an index entry whose snapshot is missing; snapshot types round-trip through serde.",
    },
    "C23": {
        "technique": "route-builder coverage (whole-table install or arm table vs the loader) and provenance of the change-detection flag",
        "level": P + "reload installs the freshly loaded program's routing table (or re-registers every origin the loader registers); whether change detection looks at operation contents is reported.",
    },
    "C24": {
        "technique": "guarded monotone writes and must-pass-through on MIR, HIR normal forms of the late-data gate, entry-point reachability shared with C16",
        "level": P + "Source watermarks are written only under new > current or when unset; recompute_effective follows every update and takes a minimum; an event is late only under ts < watermark and passes under ts >= watermark - allowed_lateness; which entry points apply the gate is reported.",
    },
    "C28": {
        "technique": "key provenance (R-KEYED) of every TenantId argument in the tenant-scoped handlers; privacy of the tenant maps",
        "level": P + "In each of the 12 tenant handlers the tenant acted upon is get_tenant_by_api_key(request key); cross-tenant accessors are not reachable from them; the tenant maps are private fields; api keys are stored, tested and looked up under one normal form.",
    },
    "C29": {
        "technique": "warp route-chain flattening (R-ROUTE) on HIR, guard dominance inside the auth filters on MIR",
        "level": P + "All 58 route chains (cluster 35, raft 7, tenant 12, admin 4) have path::end before the method filter, an auth filter of their family and at least the role their method requires (listed exceptions); the filters admit only under their permission / key test; admin handlers touch the manager only after validate_admin_key.",
    },
    "C30": {
        "technique": "who-may-write on the field index, guard normal forms and provenance of panicking float->Duration conversions on MIR",
        "level": P + "tokens is written only by the clamped refill and by the decrement under tokens >= 1 after refill; admission only on the decrement path; no Duration::from_secs_f64 of a quotient without a positive-divisor test (accepted rate 0).",
    },
    "C31": {
        "technique": "same-value / canonicalisation provenance and guard dominance on MIR",
        "level": P + "validate_path returns the very path it tested, the test is Path::starts_with on two canonicalised paths and dominates Ok; request-derived paths in the server modules reach the file system only through validate_path.",
    },
    "C33": {
        "technique": "provenance slices of placement inputs and targets, transition-table extraction (R-FSM) on MIR",
        "level": P + "Every place() input is is_available-filtered; every record fixing a target (DeployTask, MigratePipelinePlan, MigrationTask) gets it from place() or under is_available() == true; WorkerNode.status transitions and their guards match the contract table (Unhealthy only in the sweep under Ready and elapsed > timeout).",
    },
    "C34": {
        "technique": "loop/return shape on HIR, sibling call agreement, effect scan (fixed-key hasher, single atomic RMW) on MIR",
        "level": P + "find_target_pipeline returns at the first matching route in declaration order and defaults to the first pipeline; pattern tests are `*`, prefix, equality; single and batch injection share target and replica selection; the key hash is fixed-key and round-robin is one atomic fetch_add modulo the replica count.",
    },
    "C35": {
        "technique": "effect reachability over the call graph (R-DET), arm table, serde-attribute scan and provenance of LogState fields (cfg raft + persistent)",
        "level": P + "apply_command reaches no clock/RNG/uuid/env/IO API; every ClusterCommand variant has an explicit arm; no CoordinatorState field is serde-skipped and install_snapshot replaces the whole state from the deserialised bytes; both stores' get_log_state make last_log_id depend on the purged id.",
    },
    "C40": {
        "technique": "diagonal arm table of PartialEq and order-sensitivity of the Hash arms on HIR (R-EQHASH)",
        "level": P + "Value::eq is diagonal with payload comparisons (equivalence follows from payload types), unordered payloads are hashed order-independently, float eq classes match the hash normalisation, every variant is hashed.",
    },
    "C42": {
        "technique": "statement-shape rules on type-checked HIR of the expander (loop iterator form, provenance of bounds and placeholder, decoded format template, resolved substitution method, fixpoint loop)",
        "level": "Partial, structural clauses only: the copies are produced by an ascending half-open loop over the bounds parse_for_range returned, body lines in order; `..=` is tested before `..` and alone adds 1; the placeholder is exactly `{var}`; substitution is str::replace of every occurrence by the value; the pass is iterated to a fixpoint. That the expanded text parses to the same program as hand-written copies is not decided.",
    },
    "C43": {
        "technique": "unit (char vs byte) taint analysis of str slice indices on HIR, interprocedural through tuple returns and callers",
        "level": P + "No str/String range slice in the LSP crate is indexed by a character-counted value (Position.character, .chars().count(), per-char loop counters, pest columns). Other panics and range validity are not decided.",
    },
    "C09": {
        "technique": "sibling arm-table agreement (R-ARMS) of the two filter evaluators on HIR; three-valued connective semantics extracted from the code and compared by exhaustive enumeration of small formulas",
        "level": P + "For every comparison operator the (left type, literal type) rows giving a definite answer, and the operation used per row, agree between the VPL evaluator and the SASE predicate evaluator; natively translated not/and/or agree on absent operands for all formulas of depth <= 2. Disagreements are reported per row / connective.",
    },
    "C10": {
        "technique": "match-arm table of the folder on HIR (R-ARMS): literal-pattern completeness of rewriting arms and operator-family agreement with the evaluator's arm table",
        "level": P + "Every folding arm that rewrites must constrain both operands to literals (else it is reported per arm), and every literal x literal arm computes with the evaluator's own operation for that (operator, types) row. Float result equality is not decided.",
    },
    "C18": {
        "technique": "stateless-classification soundness over the field access index and call graph; provenance of the hashed value at every bucket computation in the CLI's MIR (R-KEYED / R-DET)",
        "level": P + "No RuntimeOp accepted by is_stateless carries a payload written on the processing path and every mutated StreamDefinition state field is tested; each bucket index in run_simulation hashes Value::to_partition_key of the key field with a fixed-key hasher and does not depend on the event when the key is missing. Scheduling and the output multiset are not decided.",
    },
    "C25": {
        "technique": "sibling agreement of the shared and the non-shared graphlet processor: guards dominating every write of QueryState.count on MIR, update shape (accumulate, co-update of snapshot_value) on HIR, exactly-one dispatch with equal arguments and must-pass-through of mark_processed",
        "level": "Partial, sharing-independence clauses only: the two graphlet processors between which the optimizer's sharing decision chooses update a query's trend count under the same per-query guards, both add to the previous count and advance snapshot_value with every count update, and a closed graphlet goes to exactly one of them with the same arguments and is then marked processed. The counts themselves (the property proper: equality with brute-force enumeration) are numeric and are not decided.",
    },
    "C26": {
        "technique": "result-consumption analysis (R-LOSSY) of every non-blocking send on the cross-context data path on MIR",
        "level": "One clause only: every try_send of an event on the context data path must propagate or re-queue the rejected message; sends whose result is dropped or only logged lose the event when a bounded channel is full. Ordering and equality of outputs are not decided.",
    },
    "C27": {
        "technique": "guard dominance on MIR of the checkpoint coordinator; marker-rule reachability (barrier forwarded / channel drained) over the call graph",
        "level": P + "Acks are stored only under the checkpoint-id match, the checkpoint is assembled only under acks.len() == context_names.len(), one round at a time; whether the barrier handler accounts for in-flight cross-context events (forwarded marker or drained channel) is reported.",
    },
    "C32": {
        "technique": "commit-site re-validation (guard dominance) and paired-write analysis on MIR of the coordinator's commit functions",
        "level": P + "Placements are written only for workers still registered at commit time, a migration commit re-validates the placement it replaces, assigned_pipelines / pipelines_running change together, and migration targets exclude the source worker. The interleavings themselves are not decided.",
    },
    "C36": {
        "technique": "durable-key agreement between writers and recovery (R-KEYS), write ordering and dropped-error scan on MIR (cfg persistent)",
        "level": P + "Every durable key written by the state machine store is read by recovery (or recovery is reported as unable to rebuild after compaction), snapshot data is written before the applied position, storage errors are not dropped.",
    },
    "C37": {
        "technique": "error-path analysis (R-LOSSY / R-ORDER) of the replication result in the API handlers on MIR (cfg raft)",
        "level": "Two clauses only: a failed raft_replicate never falls through to the success reply of the handler that issued it; both log stores truncate conflicting entries inclusively and overwrite on append (the RaftStorage contract the consensus library relies on). Consensus safety is openraft's and is not decided.",
    },
    "C38": {
        "technique": "replication coverage (R-REPL): locally written coordinator components vs ClusterCommand variants issued per entry point, over call graph and field index (cfg raft)",
        "level": P + "For each coordinator entry point that changes a mirrored component (workers, pipeline groups, placements, migrations, connectors, scaling policy) a command replicating that component is issued on the same entry; gaps are reported per (entry, component).",
    },
    "C39": {
        "technique": "escape-or-validate analysis (R-SANIT) of the connector renderer's format templates and the validator's guards on HIR/MIR",
        "level": P + "Every parameter value rendered inside a quoted VPL literal is either escaped or restricted by validate_connector to characters a VPL string literal can carry. Numeric-looking values rendered unquoted are not decided.",
    },
    "C41": {
        "technique": "panic containment (spawn/join shape, who-may-call), must-precede of the nesting check, loop-bound guards on MIR",
        "level": P + "parse() runs parse_inner on a joined thread and maps a panic to Err, nothing else calls parse_inner, no profile sets panic=abort; the nesting-depth check dominates the PEG parse and sees expanded text; expansion is bounded by MAX_LOOP_ITERATIONS / MAX_EXPANSION_PASSES. Error positions are not decided.",
    },
    "C44": {
        "technique": "arm tables of the four JSON<->Value converters and their composition on HIR (R-ARMS)",
        "level": P + "Kind mapping of json_to_runtime_value / json_to_value_bounded / value_to_json and their agreement per JSON kind; which numeric representations the Number arms distinguish is reported.",
    },
    "C45": {
        "technique": "must-end-in(delivery | DLQ) on the async send bodies (R-ORDER), breaker transition table and guards (R-FSM) on MIR",
        "level": P + "Every send ends in delivery or a DLQ write; the circuit breaker's transitions and guards match the contract table; half-open admits a single probe.",
    },
    "C46": {
        "technique": "decision-list extraction and agreement (R-DLIST) on HIR",
        "level": P + "For every line prefix class the preload and the streaming reader agree on skip vs event and delegate to the same leaf parsers. Values inside the shared leaf parsers are not decided.",
    },
}

NOT_APPLICABLE = {}
