"""Which properties are claimed, with the level text and technique shown in MANIFEST.json."""

CLAIMED = {
    "C08": {
        "technique": "match-arm table agreement (R-ARMS) on type-checked HIR",
        "level": "For every input at once: each ordering operator row of every expression evaluator and of the pattern comparator handles all four int/float operand pairs, with the row's own operator, unswapped operands and the integer side widened. Decides the reported defect class (missing/incorrect arms); does not decide float rounding.",
    },
}

NOT_APPLICABLE = {
    "C25": "the property is the numeric value of trend counts under sharing; correctness is a combinatorial identity over runtime event sequences - no structural clause distinguishes a right count from a wrong one (DESIGN.md section 6)",
    "C42": "equivalence of a textual loop expansion with hand-written copies is a statement about parse results of generated text; there is no sibling implementation or table to cross-check statically (DESIGN.md section 6)",
}
