"""C25 — trend counts are unaffected by sharing: the one structural clause (sibling guard agreement of the two graphlet processors)."""
from vpr.facts import root_fn

EXPLANATION = (
    "The property itself is numeric (counts equal a brute-force enumeration) and is NOT decided. One necessary clause is "
    "visible in the code: HamletAggregator::process_closed_graphlet hands a closed graphlet either to "
    "process_shared_graphlet or to process_non_shared_graphlet depending on the optimizer's sharing decision, and both "
    "update the same per-query state (QueryState.count / snapshot_value). For the decision to be invisible in the result "
    "the two siblings must update a query's count under the same per-query conditions: on MIR, every write of "
    "QueryState.count in either function is located and the QueryState fields tested by the guards that dominate it are "
    "collected (e.g. in_trend: the query has seen its start event). A field that guards the update in one sibling and not "
    "in the other makes the count depend on whether the burst was shared."
)
DECIDED = ["the shared and the non-shared graphlet processor update a query's trend count under the same per-query guards"]
NOT_DECIDED = ["the counts themselves (equality with brute-force enumeration)", "snapshot propagation coefficients", "split / merge decisions of the optimizer"]

H = "varpulis_runtime::hamlet::aggregator::"
QS = H + "QueryState"
SIBS = (H + "HamletAggregator::process_shared_graphlet", H + "HamletAggregator::process_non_shared_graphlet")


def run(ctx):
    F = ctx.facts()
    fields = [f["n"] for f in (F.fields(QS) or [])]
    if not fields:
        ctx.anchor_lost("sibling-guard", "QueryState not found")
        return
    guards = {}
    for fn in SIBS:
        b = ctx.need_body(fn, rule="sibling-guard")
        writes = []
        for p in F.bodies_of(fn):
            pb = ctx.body(p)
            for bb in sorted(pb.live):
                for s in pb.stmts(bb):
                    pr = s["d"]["p"]
                    if pr and isinstance(pr[-1], dict) and pr[-1].get("f") == "count" and pr[-1].get("a") == QS:
                        writes.append((pb, bb, s))
                t = pb.term(bb)
                if t["k"] == "call":
                    pr = t["dest"]["p"]
                    if pr and isinstance(pr[-1], dict) and pr[-1].get("f") == "count" and pr[-1].get("a") == QS:
                        writes.append((pb, bb, t))
        name = fn.rsplit("::", 1)[1]
        if not writes:
            ctx.anchor_lost("sibling-guard", "%s never writes QueryState.count" % name)
            return
        tested = set()
        for pb, bb, s in writes:
            for g in pb.guards_of(bb):
                txt = g.get("text", "")
                for f in fields:
                    if ("." + f) in txt or txt.endswith(f) or ("%s)" % f) in txt:
                        tested.add(f)
        guards[name] = (tested, writes[0][2].get("sp"))
    (n1, (g1, s1)), (n2, (g2, s2)) = sorted(guards.items())
    ctx.sample({"count_update_guards": {n1: sorted(g1), n2: sorted(g2)}})
    for f in sorted(g1 | g2):
        key = "count-update:%s" % f
        if f in g1 and f in g2:
            ctx.ok("sibling-guard", key, "both processors update the count only under QueryState.%s" % f)
        else:
            has, lacks = (n1, n2) if f in g1 else (n2, n1)
            ctx.violation("sibling-guard", key, "%s updates a query's trend count only under QueryState.%s, %s updates it unconditionally: whether a burst is processed shared or not changes the count (a query that has not seen its start event is counted in the shared path)" % (has, f, lacks), site=guards[lacks][1])
    if not (g1 | g2):
        ctx.ok("sibling-guard", "count-update", "neither processor guards the update by a per-query field")
    ctx.floor("sibling-guard", "graphlet processors compared", len(guards), 2)
