"""C25 — trend counts are unaffected by sharing: the one structural clause (sibling guard agreement of the two graphlet processors)."""
from vpr.facts import root_fn

EXPLANATION = (
    "The property itself is numeric (counts equal a brute-force enumeration) and is NOT decided. One necessary clause is "
    "visible in the code: HamletAggregator::process_closed_graphlet hands a closed graphlet either to "
    "process_shared_graphlet or to process_non_shared_graphlet depending on the optimizer's sharing decision, and both "
    "update the same per-query state (QueryState.count / snapshot_value). For the decision to be invisible in the result "
    "the two siblings must update a query's count under the same per-query conditions: on MIR, every write of "
    "QueryState.count in either function is located and the QueryState fields tested by the guards that dominate it are "
    "collected (e.g. in_trend: the query has seen its start event). A field that guards the update in one sibling and not "
    "in the other makes the count depend on whether the burst was shared."
)
DECIDED = ["the shared and the non-shared graphlet processor update a query's trend count under the same per-query guards",
           "both processors accumulate into the count (saturating add onto the previous count) and advance snapshot_value together with every count update",
           "every transition into a trend re-seeds the query's incoming snapshot value in the same step",
           "a closed graphlet is handed to exactly one of the two processors, with the same graphlet and query list, and is marked processed on every such path"]
NOT_DECIDED = ["the counts themselves (equality with brute-force enumeration)", "snapshot propagation coefficients", "split / merge decisions of the optimizer"]

H = "varpulis_runtime::hamlet::aggregator::"
QS = H + "QueryState"
SIBS = (H + "HamletAggregator::process_shared_graphlet", H + "HamletAggregator::process_non_shared_graphlet")


def run(ctx):
    ctx.guard("sibling-update", lambda: run_update_shape(ctx))
    run_guards(ctx)


def writes_of(h, field):
    from vpr import hirq as HQ
    return [x for x in HQ.walk(h["body"]) if x.get("k") == "assign" and HQ.strip(x["l"]).get("k") == "field"
            and HQ.strip(x["l"])["name"] == field and HQ.strip(x["l"]).get("adt") == QS]


def run_update_shape(ctx):
    from vpr import hirq as HQ
    R = "sibling-update"
    n = 0
    for fn in SIBS:
        h = ctx.need_hir(fn, rule=R)
        name = fn.rsplit("::", 1)[1]
        cw, sw = writes_of(h, "count"), writes_of(h, "snapshot_value")
        n += len(cw)
        for i, w in enumerate(cw):
            key = "%s:count#%d" % (name, i)
            owner = HQ.local_key(HQ.strip(w["l"])["e"])
            r = HQ.strip(w["r"])
            acc = False
            if w["op"] == "Add":
                acc = True
            elif r.get("k") == "mcall" and r["method"] in ("saturating_add", "wrapping_add", "checked_add"):
                ops = [HQ.strip(r["recv"])] + [HQ.strip(a) for a in r["args"]]
                acc = any(o.get("k") == "field" and o["name"] == "count" and o.get("adt") == QS and HQ.local_key(o["e"]) == owner for o in ops)
            elif r.get("k") == "bin" and r["op"] == "Add":
                ops = [HQ.strip(r["l"]), HQ.strip(r["r"])]
                acc = any(o.get("k") == "field" and o["name"] == "count" and o.get("adt") == QS and HQ.local_key(o["e"]) == owner for o in ops)
            if acc:
                ctx.ok(R, key + ":accumulates", site=w["sp"])
            else:
                ctx.violation(R, key + ":accumulates", "%s assigns `%s` to a query's trend count instead of adding the graphlet's contribution to the previous count: the counts of earlier graphlets are lost in this processor only, so the total depends on the sharing decision" % (name, HQ.show(w["r"])[:80]), site=w["sp"])
            # the snapshot value advances in the same block, for the same query state
            blk = [b for b in HQ.walk(h["body"]) if b.get("k") == "block" and any(s_["k"] == "expr" and HQ.strip(s_["e"]) is w for s_ in b["stmts"]) or (b.get("k") == "block" and b.get("tail") is not None and HQ.strip(b["tail"]) is w)]
            together = False
            for b in blk:
                for s_ in b["stmts"] + ([{"k": "expr", "e": b["tail"]}] if b.get("tail") is not None else []):
                    if s_["k"] == "expr":
                        e = HQ.strip(s_["e"])
                        if e in sw and HQ.local_key(HQ.strip(e["l"])["e"]) == owner:
                            together = True
            if together:
                ctx.ok(R, key + ":advances-snapshot", site=w["sp"])
            else:
                ctx.violation(R, key + ":advances-snapshot", "%s updates a query's count without advancing its snapshot_value in the same step: the next graphlet starts from a stale incoming value in this processor only" % name, site=w["sp"])
    ctx.floor(R, "count updates in the two graphlet processors", n, 2)
    # every transition into a trend re-seeds the incoming snapshot value in the same step (anywhere in the aggregator)
    T = "trend-start"
    F = ctx.facts()
    starts = 0
    for fn in [p_ for p_ in F.hir_paths() if p_.startswith(H + "HamletAggregator::")]:
        hh = F.hir(fn)
        if hh is None:
            continue
        for blk in [b_ for b_ in HQ.walk(hh["body"]) if b_.get("k") == "block"]:
            ex = [HQ.strip(s_["e"]) for s_ in blk["stmts"] if s_["k"] == "expr"] + ([HQ.strip(blk["tail"])] if blk.get("tail") is not None else [])
            for e in ex:
                if e is None or e.get("k") != "assign" or e["op"] is not None:
                    continue
                l = HQ.strip(e["l"])
                if l.get("k") == "field" and l["name"] == "in_trend" and l.get("adt") == QS and HQ.show(e["r"]) == "true":
                    starts += 1
                    owner = HQ.local_key(l["e"])
                    seeded = [e2 for e2 in ex if e2 is not None and e2.get("k") == "assign" and e2["op"] is None and HQ.strip(e2["l"]).get("k") == "field"
                              and HQ.strip(e2["l"])["name"] == "snapshot_value" and HQ.strip(e2["l"]).get("adt") == QS and HQ.local_key(HQ.strip(e2["l"])["e"]) == owner]
                    key = "%s:in_trend#%d" % (fn.rsplit("::", 1)[1], starts)
                    if seeded:
                        ctx.ok(T, key + ":reseeds-snapshot", "snapshot_value = %s" % HQ.show(seeded[0]["r"]), site=e["sp"])
                    else:
                        ctx.violation(T, key + ":reseeds-snapshot", "%s sets QueryState.in_trend without re-seeding snapshot_value in the same step: a trend that starts after earlier graphlets were processed inherits their propagated value (the graphlet processors advance snapshot_value), so its count depends on what was processed before and on whether those bursts were shared" % fn.rsplit("::", 1)[1], site=e["sp"])
    ctx.floor(T, "transitions into a trend (in_trend = true)", starts, 1)
    # dispatch
    D = "dispatch"
    hd = ctx.need_hir(H + "HamletAggregator::process_closed_graphlet", rule=D)
    names = [s_.rsplit("::", 1)[1] for s_ in SIBS]
    calls = [x for x in HQ.walk(hd["body"]) if x.get("k") == "mcall" and x["method"] in names]
    if sorted(c["method"] for c in calls) != sorted(names):
        ctx.violation(D, "one-of-two", "process_closed_graphlet calls %s; it must hand the graphlet to exactly one of %s" % ([c["method"] for c in calls], names), site=hd["span"])
        return
    ifs = [x for x in HQ.walk(hd["body"]) if x.get("k") == "if" and x.get("else") is not None]
    pair = [x for x in ifs if {c2["method"] for c2 in HQ.walk(x["then"]) if c2.get("k") == "mcall" and c2["method"] in names} | {c2["method"] for c2 in HQ.walk(x["else"]) if c2.get("k") == "mcall" and c2["method"] in names} == set(names)
            and len({c2["method"] for c2 in HQ.walk(x["then"]) if c2.get("k") == "mcall" and c2["method"] in names}) == 1]
    if pair:
        ctx.ok(D, "one-of-two", "the two processors are the two branches of one test", site=pair[0]["sp"])
    else:
        ctx.violation(D, "one-of-two", "the two graphlet processors are not the two branches of one test: a graphlet can be processed by both or by neither", site=hd["span"])
    a0, a1 = [[HQ.show(a) for a in c["args"]] for c in calls]
    if a0 == a1:
        ctx.ok(D, "same-arguments", str(a0))
    else:
        ctx.violation(D, "same-arguments", "the shared processor is called with %s, the non-shared one with %s: the set of queries whose counts are updated depends on the sharing decision" % (a0, a1), site=calls[0]["sp"])
    b = ctx.need_body(H + "HamletAggregator::process_closed_graphlet", rule=D)
    mp = [bb for bb, t in b.calls() if t["callee"].endswith("::mark_processed")]
    sib = [bb for bb, t in b.calls() if t["callee"].rsplit("::", 1)[1] in names]
    if not mp:
        ctx.violation(D, "marks-processed", "process_closed_graphlet never marks the graphlet processed (it would be counted again at flush)", site=hd["span"])
    else:
        rets = set(b.return_blocks())
        bad = [bb for bb in sib if rets & b.reachable(bb, avoid_blocks=set(mp))]
        if bad:
            ctx.violation(D, "marks-processed", "a path from a graphlet processor call to the return skips mark_processed", site=b.term(bad[0])["sp"])
        else:
            ctx.ok(D, "marks-processed", "%d processor calls, all followed by mark_processed" % len(sib))


def run_guards(ctx):
    F = ctx.facts()
    fields = [f["n"] for f in (F.fields(QS) or [])]
    if not fields:
        ctx.anchor_lost("sibling-guard", "QueryState not found")
        return
    guards = {}
    for fn in SIBS:
        b = ctx.need_body(fn, rule="sibling-guard")
        writes = []
        for p in F.bodies_of(fn):
            pb = ctx.body(p)
            for bb in sorted(pb.live):
                for s in pb.stmts(bb):
                    pr = s["d"]["p"]
                    if pr and isinstance(pr[-1], dict) and pr[-1].get("f") == "count" and pr[-1].get("a") == QS:
                        writes.append((pb, bb, s))
                t = pb.term(bb)
                if t["k"] == "call":
                    pr = t["dest"]["p"]
                    if pr and isinstance(pr[-1], dict) and pr[-1].get("f") == "count" and pr[-1].get("a") == QS:
                        writes.append((pb, bb, t))
        name = fn.rsplit("::", 1)[1]
        if not writes:
            ctx.anchor_lost("sibling-guard", "%s never writes QueryState.count" % name)
            return
        tested = set()
        for pb, bb, s in writes:
            for g in pb.guards_of(bb):
                txt = g.get("text", "")
                for f in fields:
                    if ("." + f) in txt or txt.endswith(f) or ("%s)" % f) in txt:
                        tested.add(f)
        guards[name] = (tested, writes[0][2].get("sp"))
    (n1, (g1, s1)), (n2, (g2, s2)) = sorted(guards.items())
    ctx.sample({"count_update_guards": {n1: sorted(g1), n2: sorted(g2)}})
    for f in sorted(g1 | g2):
        key = "count-update:%s" % f
        if f in g1 and f in g2:
            ctx.ok("sibling-guard", key, "both processors update the count only under QueryState.%s" % f)
        else:
            has, lacks = (n1, n2) if f in g1 else (n2, n1)
            ctx.violation("sibling-guard", key, "%s updates a query's trend count only under QueryState.%s, %s updates it unconditionally: whether a burst is processed shared or not changes the count (a query that has not seen its start event is counted in the shared path)" % (has, f, lacks), site=guards[lacks][1])
    if not (g1 | g2):
        ctx.ok("sibling-guard", "count-update", "neither processor guards the update by a per-query field")
    ctx.floor("sibling-guard", "graphlet processors compared", len(guards), 2)
