"""C29 — every API endpoint enforces its required role (R-ROUTE on warp chains, R-GUARD inside the auth filters)."""
from vpr import hirq as H
from vpr.facts import root_fn

EXPLANATION = (
    "R-ROUTE on type-checked HIR: every warp filter chain ending in `.and_then(handler)` in cluster_routes, raft_routes "
    "(cfg raft), api_routes and tenant_admin_routes is flattened; each must have `path::end()` before its method filter "
    "(no prefix capture), an authentication filter of its family before the handler (with_rbac(_, Role::R) / "
    "with_optional_raft_auth / with_api_key / with_admin_key), and for the RBAC family the role must be at least the "
    "method's minimum (GET >= Viewer, POST/PUT >= Operator, DELETE = Admin; exceptions listed one by one). Unauthenticated "
    "endpoints are an explicit table. R-GUARD on MIR/HIR inside the filters: with_rbac yields Ok only under "
    "has_permission(required) == true; Role::has_permission is `self >= required` over the declaration order Viewer < "
    "Operator < Admin; with_optional_raft_auth yields Ok only when no key is configured or the provided key equals it; "
    "every tenant-admin handler calls validate_admin_key and touches the manager only under its Ok; authenticate compares "
    "with constant_time_compare."
)
DECIDED = ["every route chain is anchored (path::end) and authenticated, with the role its method requires", "the auth filters admit only under their permission test", "admin handlers act only after validate_admin_key succeeded"]
NOT_DECIDED = ["that rejected requests leave state unchanged inside handlers that run before rejection (none do: filters run before handlers)", "TLS / transport"]

ROLE_RANK = {"Viewer": 0, "Operator": 1, "Admin": 2}
METHOD_MIN = {"get": "Viewer", "post": "Operator", "put": "Operator", "delete": "Admin", "patch": "Operator"}
# endpoints whose role is below the method rule, with the reason
ROLE_EXCEPTIONS = {
    "post /validate": ("Viewer", "validation of a VPL text, read-only"),
    "post /chat": ("Viewer", "read-only assistant query"),
}
UNAUTHENTICATED = {
    "get /prometheus": "Prometheus scrape endpoint (documented as open)",
    "get /raft": "raft status for load balancers / peers (documented as open)",
    "get /metrics@raft": "raft metrics for peers",
}
CHAIN_METHODS = ("and", "and_then", "or", "map", "untuple_one", "boxed", "recover", "with", "then", "unify")


def chain(e):
    e = H.strip(e)
    out = []
    while e is not None and e.get("k") == "mcall" and e["method"] in CHAIN_METHODS:
        out.append((e["method"], e["args"][0] if e["args"] else None, e["sp"]))
        e = H.strip(e["recv"])
    out.append(("base", e, None))
    return list(reversed(out))


def resolve_local(a_, env):
    """a filter bound to a local first (`let auth = with_rbac(..);` ... `.and(auth.clone())`) is replaced by its initialiser"""
    for _ in range(4):
        if a_ is None:
            return a_
        if a_.get("k") == "mcall" and a_["method"] == "clone" and not a_["args"]:
            a_ = H.strip(a_["recv"])
            continue
        if a_.get("k") == "ref":
            a_ = H.strip(a_["e"])
            continue
        nm = H.local_name(a_) if a_.get("k") == "path" else None
        if nm is not None and env and nm in env:
            a_ = H.strip(env[nm])
            continue
        break
    return a_


def describe(ch, env=None):
    """(method, path string, [filters as text], handler def path, index info)"""
    segs = []
    method = None
    end_idx = method_idx = None
    filters = []
    handler = None
    for i, (m, a, sp) in enumerate(ch):
        if a is None:
            continue
        a_ = H.strip(a)
        if m not in ("and_then", "base"):
            a_ = resolve_local(a_, env)
        t = H.show(a_)
        if m == "and_then":
            handler = a_["res"].split(":", 1)[1] if a_.get("k") == "path" else t
            continue
        if t.startswith("path::path("):
            segs.append(t[len("path::path("):-1].strip('"'))
        elif t.startswith("path::param"):
            segs.append(":p")
        elif t.startswith("path::end"):
            end_idx = i
        elif t.startswith("method::"):
            method = t[len("method::"):].split("(")[0]
            method_idx = i
        filters.append((i, t, a_))
    return method, "/" + "/".join(segs), filters, handler, end_idx, method_idx


def route_chains(F, fn, cfg_ctx):
    h = cfg_ctx.need_hir(fn, rule="route") if isinstance(cfg_ctx, object) and hasattr(cfg_ctx, "need_hir") else None
    out = []
    for s in H.lets(h["body"]):
        if s["pat"]["k"] != "bind" or s["init"] is None:
            continue
        ch = chain(s["init"])
        if any(m == "and_then" for m, _, _ in ch):
            out.append((s["pat"]["name"], ch, s["sp"]))
    return out


def check_family(ctx, fn, cfg, family, floor, auth_prefixes, tag=""):
    F = ctx.facts(cfg)
    h = F.hir(fn)
    if h is None:
        ctx.anchor_lost("route", "%s not found (cfg %s)" % (fn, cfg))
        return
    chains = []
    for s in H.lets(h["body"]):
        if s["pat"]["k"] != "bind" or s["init"] is None:
            continue
        ch = chain(s["init"])
        if any(m == "and_then" for m, _, _ in ch):
            chains.append((s["pat"]["name"], ch, s["sp"]))
    ctx.floor("route", "route chains in %s" % fn.rsplit("::", 1)[1], len(chains), floor)
    # single-assignment locals holding a filter (not a route): name -> initialiser
    names = [s_["pat"]["name"] for s_ in H.lets(h["body"]) if s_["pat"]["k"] == "bind"]
    env = {s_["pat"]["name"]: s_["init"] for s_ in H.lets(h["body"])
           if s_["pat"]["k"] == "bind" and s_["init"] is not None and names.count(s_["pat"]["name"]) == 1
           and not any(m == "and_then" for m, _, _ in chain(s_["init"]))}
    n_auth = 0
    for name, ch, sp in chains:
        method, path, filters, handler, end_idx, method_idx = describe(ch, env)
        ep = "%s %s%s" % (method, path, tag)
        key = "%s:%s" % (family, ep)
        if end_idx is None or method_idx is None or end_idx > method_idx:
            ctx.violation("route", key + ":path-end", "route `%s` (%s) has no path::end() before its method filter: it also matches every longer path with that prefix, under this route's (possibly weaker) role" % (ep, name), site=sp)
        else:
            ctx.ok("route", key + ":path-end")
        auth = [(i, t, a) for i, t, a in filters if t.split("(")[0].split("::")[-1] in auth_prefixes]
        if not auth:
            if ep in UNAUTHENTICATED:
                ctx.ok("route", key + ":auth", "listed unauthenticated endpoint: " + UNAUTHENTICATED[ep], nontrivial=False)
            else:
                ctx.violation("route", key + ":auth", "route `%s` (%s -> %s) has no authentication filter (%s) before its handler" % (ep, name, handler, "/".join(auth_prefixes)), site=sp)
            continue
        n_auth += 1
        if family == "cluster":
            t = auth[0][1]
            role = t.rsplit("Role::", 1)[1].rstrip(")") if "Role::" in t else None
            need = METHOD_MIN.get(method)
            exc = ROLE_EXCEPTIONS.get(ep)
            if role not in ROLE_RANK or need is None:
                ctx.violation("route", key + ":role", "route `%s`: unrecognised role / method (`%s`, %s)" % (ep, t, method), site=sp)
            elif exc and role == exc[0]:
                ctx.ok("route", key + ":role", "listed exception (%s): %s" % exc, nontrivial=False)
            elif ROLE_RANK[role] < ROLE_RANK[need] or (method == "delete" and role != "Admin"):
                ctx.violation("route", key + ":role", "route `%s` requires only Role::%s; a %s endpoint requires at least Role::%s" % (ep, role, method.upper(), need), site=sp)
            else:
                ctx.ok("route", key + ":role", "Role::%s" % role)
        else:
            ctx.ok("route", key + ":auth", auth[0][1][:40])
        if len(ctx.samples) < 12:
            ctx.sample({"endpoint": ep, "auth": auth[0][1][:50], "handler": (handler or "")[-40:]})
    return n_auth


def run_filters(ctx):
    F = ctx.facts()
    # with_rbac: Ok only under has_permission == true
    fns = [p for p in F.mir_paths() if p.startswith("varpulis_cluster::api::with_rbac::{closure#0}")]
    found = False
    for p in fns:
        b = ctx.body(p)
        oks = [(bb, s) for bb in sorted(b.live) for s in b.stmts(bb) if s["k"] == "agg" and s.get("agg", "").endswith("Result::Ok")]
        for bb, s in oks:
            found = True
            gs = b.guards_of(bb)
            if any(g["kind"] == "call" and g["call"]["callee"].endswith("Role::has_permission") and g["taken"] == "true" for g in gs):
                ctx.ok("filter", "with_rbac:ok-under-permission", site=s["sp"])
            else:
                ctx.violation("filter", "with_rbac:ok-under-permission", "with_rbac admits a request (Ok) on a path not guarded by has_permission(required) == true", site=s["sp"])
    if not found:
        ctx.anchor_lost("filter", "with_rbac: no Ok result found in its closure bodies")
    # has_permission
    h = ctx.need_hir("varpulis_cluster::rbac::Role::has_permission", rule="filter")
    txt = H.show(h["body"])
    order = F.variants("varpulis_cluster::rbac::Role")
    if order == ["Viewer", "Operator", "Admin"] and txt.replace(" ", "") in ("((selfasu8)>=(requiredasu8))", "((requiredasu8)<=(selfasu8))"):
        ctx.ok("filter", "has_permission", "self >= required over Viewer < Operator < Admin")
    else:
        ctx.violation("filter", "has_permission", "Role::has_permission is `%s` over the variant order %s; expected self >= required with Viewer < Operator < Admin" % (txt, order), site=h["span"])
    # authenticate uses constant-time comparison and returns the matched entry's role
    ab = ctx.need_body("varpulis_cluster::rbac::RbacConfig::authenticate", rule="filter")
    if ab.call_blocks(lambda t: t["callee"].endswith("constant_time_compare")):
        somes = [(bb, s) for bb in sorted(ab.live) for s in ab.stmts(bb) if s["k"] == "agg" and s.get("agg", "").endswith("Option::Some")]
        bad = []
        for bb, s in somes:
            d = ab.desc(s["o"][0])
            if "anonymous_role" in d:
                gs = ab.guards_of(bb)
                if not any("allow_anonymous" in g.get("text", "") and g["taken"] == "true" for g in gs):
                    bad.append(s)
            elif "role" in d:
                gs = ab.guards_of(bb)
                if not any(g["kind"] == "call" and g["call"]["callee"].endswith("constant_time_compare") and g["taken"] == "true" for g in gs):
                    bad.append(s)
        if bad:
            ctx.violation("filter", "authenticate", "authenticate grants a role on a path that is neither a key match nor allowed anonymous access", site=bad[0]["sp"])
        else:
            ctx.ok("filter", "authenticate", "%d role grants, each under a key match or allow_anonymous" % len(somes))
    else:
        ctx.violation("filter", "authenticate", "authenticate no longer compares keys with constant_time_compare")


def run_raft_filter(ctx):
    F = ctx.facts("raft")
    fns = [p for p in F.mir_paths() if p.startswith("varpulis_cluster::raft::routes::with_optional_raft_auth::{closure#0}")]
    found = False
    for p in fns:
        b = ctx.body(p, "raft")
        oks = [(bb, s) for bb in sorted(b.live) for s in b.stmts(bb) if s["k"] == "agg" and s.get("agg", "").endswith("Result::Ok")]
        for bb, s in oks:
            found = True
            gs = b.guards_of(bb)
            key_none = any(g["kind"] == "discr" and "key" in g["text"] and g["taken"] in ([0],) for g in gs)
            eq = any(g["kind"] == "call" and g["call"]["callee"].endswith("PartialEq::eq") and g["taken"] == "true" for g in gs)
            if key_none or eq:
                ctx.ok("filter", "raft-auth:ok#%d" % bb, "no key configured" if key_none else "provided == expected", site=s["sp"])
            else:
                ctx.violation("filter", "raft-auth:ok", "with_optional_raft_auth admits a request although a key is configured and the provided key was not compared equal", site=s["sp"])
    if not found:
        ctx.anchor_lost("filter", "with_optional_raft_auth: no Ok result found")


def run_admin_handlers(ctx):
    F = ctx.facts()
    n = 0
    VAL = "varpulis_cli::api::validate_admin_key"
    for p in F.mir_paths():
        if not (p.startswith("varpulis_cli::api::handle_") and p == root_fn(p) + "::{closure#0}"):
            continue
        it = F.fn_item(root_fn(p))
        b = ctx.body(p)
        calls = b.call_blocks({VAL})
        is_admin = "tenant" in root_fn(p).rsplit("::", 1)[1] and root_fn(p).rsplit("::", 1)[1] in ("handle_create_tenant", "handle_list_tenants", "handle_get_tenant", "handle_delete_tenant")
        if not is_admin:
            continue
        n += 1
        name = root_fn(p).rsplit("::", 1)[1]
        if not calls:
            ctx.violation("admin-handler", name, "%s never calls validate_admin_key" % name, site=b.js["span"])
            continue
        locks = [bb for bb, t in b.calls() if t["callee"].endswith("RwLock::<T>::write") or t["callee"].endswith("RwLock::<T>::read")]
        bad = [l for l in locks if not b.blocks_dominate(calls, l)]
        if bad:
            ctx.violation("admin-handler", name, "%s locks the tenant manager on a path that has not validated the admin key" % name, site=b.term(bad[0])["sp"])
        else:
            ctx.ok("admin-handler", name, "manager touched only after validate_admin_key")
    ctx.floor("admin-handler", "tenant admin handlers", n, 4)
    vb = ctx.need_body(VAL, rule="admin-handler")
    oks = [(bb, s) for bb in sorted(vb.live) for s in vb.stmts(bb) if s["k"] == "agg" and s.get("agg", "").endswith("Result::Ok")]
    for bb, s in oks:
        gs = vb.guards_of(bb)
        if any(g["kind"] == "call" and ("constant_time" in g["call"]["callee"] or g["call"]["callee"].endswith("PartialEq::eq")) and g["taken"] == "true" for g in gs):
            ctx.ok("admin-handler", "validate_admin_key:ok", site=s["sp"])
        else:
            ctx.violation("admin-handler", "validate_admin_key:ok", "validate_admin_key returns Ok on a path where the provided key was not compared equal to the configured one (guards: %s)" % [g.get("text", "")[:40] for g in gs], site=s["sp"])
    if not oks:
        ctx.anchor_lost("admin-handler", "validate_admin_key: no Ok found")


def run(ctx):
    ctx.guard("route", lambda: check_family(ctx, "varpulis_cluster::api::cluster_routes", "default", "cluster", 35, ("with_rbac",)))
    ctx.guard("route", lambda: check_family(ctx, "varpulis_cluster::raft::routes::raft_routes", "raft", "raft", 7, ("with_optional_raft_auth",), tag="@raft"))
    ctx.guard("route", lambda: check_family(ctx, "varpulis_cli::api::api_routes", "default", "tenant", 12, ("with_api_key",)))
    ctx.guard("route", lambda: check_family(ctx, "varpulis_cli::api::tenant_admin_routes", "default", "admin", 4, ("with_admin_key",)))
    ctx.guard("filter", lambda: run_filters(ctx))
    ctx.guard("filter", lambda: run_raft_filter(ctx))
    ctx.guard("admin-handler", lambda: run_admin_handlers(ctx))
