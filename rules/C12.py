"""C12 — tumbling / count / session windows partition their input (ownership paths, boundary normal forms, marker co-mutation)."""
from vpr.guards import comparison_guards
from vpr.prov import forward_uses

EXPLANATION = (
    "On MIR of window.rs: (a) in every add_shared of the tumbling, count and session windows each path to a return moves the "
    "event into the buffer exactly once (must-pass-through of ColumnarBuffer::push, never two pushes on one path), and every "
    "batch taken out of the buffer flows to the return value; (b) the closing tests have the boundary relations the statement "
    "fixes: tumbling closes iff event_time >= window_start + duration, session closes iff event_time - last_event_time > gap, "
    "count closes iff len >= count after the push (normal forms are independent of operand order / negation / branch); "
    "(c) marker co-mutation: the field that remembers the open window/session (window_start, last_event_time) is reset or "
    "moved out only on paths that also drain the buffer, so an open buffer never loses its boundary reference; (d) the "
    "partitioned wrappers delegate to the plain windows."
)
DECIDED = ["no loss / no duplication of the arriving event inside add_shared", "emitted batches reach the caller", "boundary relations of tumbling, session and count closes",
           "window_start / last_event_time are cleared only together with the buffer", "partitioned windows delegate to the plain ones"]
NOT_DECIDED = ["arrival order inside ColumnarBuffer (see C14 co-mutation)", "out-of-order streams", "strictness of the watermark-driven close (left open by the statement)"]

W = "varpulis_runtime::window::"
PUSH = "varpulis_runtime::columnar::ColumnarBuffer::push"
DRAINS = ("varpulis_runtime::columnar::ColumnarBuffer::take_all", "varpulis_runtime::columnar::ColumnarBuffer::clear",
          "varpulis_runtime::columnar::ColumnarBuffer::drain_front")
FLUSHERS = ("::flush_shared", "::flush_columnar", "::flush")


def calls_named(b, names):
    return [(bb, t) for bb, t in b.calls() if (t["inst"] or t["callee"]) in names or t["callee"] in names]


def drain_blocks(ctx, b):
    """blocks that empty the buffer: direct drains, or calls to the window's own flush* (which drain)"""
    out = []
    for bb, t in b.calls():
        c = t["inst"] or t["callee"]
        if c in DRAINS or (c.startswith(W) and c.endswith(FLUSHERS)):
            out.append(bb)
    return out


def check_push_once(ctx, fn):
    b = ctx.need_body(fn, rule="push-once")
    pushes = [bb for bb, _ in calls_named(b, {PUSH})]
    name = fn[len(W):]
    if not pushes:
        ctx.violation("push-once", name, "%s never stores the arriving event in its buffer" % name, site=b.js["span"])
        return
    # `?` exits (FromResidual::from_residual) are not normal completions of add_shared: the only one today is
    # `self.window_start?` right after the field was set, an infeasible path that a path-insensitive CFG cannot prune
    residual = [bb for bb, t in b.calls() if t["callee"].endswith("FromResidual::from_residual")]
    if residual:
        ctx.note("%s: %d `?` early exit(s) excluded from the no-loss path check" % (name, len(residual)))
    r = b.reachable(0, avoid_blocks=set(pushes) | set(residual))
    left = [t for t in b.return_blocks() if t in r]
    if left:
        ctx.violation("push-once", name + ":loss", "a path through %s returns without storing the arriving event: the event is in no window" % name, site=b.term(pushes[0])["sp"])
    else:
        ctx.ok("push-once", name + ":loss", site=b.term(pushes[0])["sp"])
    dup = [(p, q) for p in pushes for q in pushes if p != q and q in b.reachable(p) ]
    dup = [(p, q) for p, q in dup if q in set().union(*[b.reachable(s) for s in b.succ[p]])] if dup else []
    if dup:
        ctx.violation("push-once", name + ":dup", "a path through %s stores the arriving event twice" % name, site=b.term(dup[0][1])["sp"])
    else:
        ctx.ok("push-once", name + ":dup")


def check_emit_flows(ctx, fn):
    b = ctx.need_body(fn, rule="emit-flows")
    name = fn[len(W):]
    k = 0
    for bb, t in b.calls():
        c = t["inst"] or t["callee"]
        if c == DRAINS[0]:
            k += 1
            sinks = forward_uses(b, t["dest"]["l"])
            if any(s[0] == "return" for s in sinks):
                ctx.ok("emit-flows", "%s#%d" % (name, k), site=t["sp"])
            else:
                ctx.violation("emit-flows", "%s#%d" % (name, k), "%s takes the buffered events out but the batch does not reach the return value (events dropped)" % name, site=t["sp"])


def relation_at(ctx, b, bb):
    return [nf for nf, g in comparison_guards(b, bb)]


def check_boundaries(ctx):
    # tumbling: close iff event_time >= window_start + duration
    fn = W + "TumblingWindow::add_shared"
    b = ctx.need_body(fn, rule="boundary")
    closes = [bb for bb, _ in calls_named(b, {DRAINS[0]})]
    ctx.floor("boundary", "tumbling close sites", len(closes), 1)
    for bb in closes:
        nfs = relation_at(ctx, b, bb)
        hit = [nf for nf in nfs if "event_time" in nf[1] and "window_start" in nf[2] + b_local_expansion(b, nf[2]) and "duration" in nf[2] + b_local_expansion(b, nf[2])]
        site = b.term(bb)["sp"]
        if not hit:
            ctx.violation("boundary", "tumbling:add_shared", "tumbling close is not guarded by a comparison of event_time with window_start + duration (guards: %s)" % nfs, site=site)
        elif hit[0][0] != ">=":
            ctx.violation("boundary", "tumbling:add_shared", "tumbling window closes under `%s %s %s`; a window holds only events earlier than first + duration, i.e. closes iff event_time >= window_start + duration" % (hit[0][1], hit[0][0], hit[0][2]), site=site)
        else:
            ctx.ok("boundary", "tumbling:add_shared", "%s %s %s" % (hit[0][1], hit[0][0], hit[0][2]), site=site)
            ctx.sample({"window": "tumbling", "close_under": "%s %s %s" % (hit[0][1], hit[0][0], hit[0][2])})
    # the new window restarts at the closing event
    ws = [s for bb2 in sorted(b.live) for s in b.stmts(bb2) if any(isinstance(e, dict) and e.get("f") == "window_start" for e in s["d"]["p"])]
    for bb in closes:
        post = set().union(*[b.reachable(s) for s in b.succ[bb]])
        restarts = [s for bb2 in post for s in b.stmts(bb2) if any(isinstance(e, dict) and e.get("f") == "window_start" for e in s["d"]["p"])]
        if not restarts:
            ctx.violation("boundary", "tumbling:restart", "after closing, the tumbling window does not restart window_start", site=b.term(bb)["sp"])
        else:
            d = " ".join(b.desc(o) for s in restarts for o in s["o"])
            if "event_time" in d:
                ctx.ok("boundary", "tumbling:restart", d[:80])
            else:
                ctx.violation("boundary", "tumbling:restart", "after closing, window_start is set to `%s`, not to the closing event's time" % d[:80], site=restarts[0]["sp"])
    # session: close iff event_time - last_event_time > gap
    fn = W + "SessionWindow::add_shared"
    b = ctx.need_body(fn, rule="boundary")
    closes = [bb for bb, _ in calls_named(b, {DRAINS[0]})]
    ctx.floor("boundary", "session close sites", len(closes), 1)
    for bb in closes:
        nfs = relation_at(ctx, b, bb)
        site = b.term(bb)["sp"]
        hit = [nf for nf in nfs if "gap" in nf[1] + nf[2]]
        if not hit:
            ctx.violation("boundary", "session:add_shared", "session close is not guarded by a comparison with the gap (guards: %s)" % nfs, site=site)
            continue
        rel, l, r = hit[0]
        # accepted equivalent forms: (event_time - last) > gap ; event_time > last + gap
        okform = (rel == ">" and "gap" in r and "event_time" in l and ("last" in l or "last" in r)) or \
                 (rel == ">" and "event_time" in l and "gap" in r and "last" in r)
        if okform:
            ctx.ok("boundary", "session:add_shared", "%s %s %s" % (l, rel, r), site=site)
            ctx.sample({"window": "session", "close_under": "%s %s %s" % (l, rel, r)})
        else:
            ctx.violation("boundary", "session:add_shared", "session closes under `%s %s %s`; a session holds events whose gaps are within the gap, i.e. closes iff event_time - last_event_time > gap" % (l, rel, r), site=site)
    # count: closes iff len >= count, evaluated after the push
    fn = W + "CountWindow::add_shared"
    b = ctx.need_body(fn, rule="boundary")
    pushes = [bb for bb, _ in calls_named(b, {PUSH})]
    thens = [(bb, t) for bb, t in b.calls() if t["callee"].endswith("bool::then") or t["callee"].endswith("::then")]
    direct = [bb for bb, _ in calls_named(b, {DRAINS[0]})]
    found = False
    for bb, t in thens:
        d = b.desc(t["args"][0])
        found = True
        norm = d.replace(" ", "")
        if "Ge" in d and "len(" in d and d.rstrip(")").endswith("count") and d.index("len(") < d.index("Ge"):
            if pushes and all(b.dominates(p, bb) for p in pushes):
                ctx.ok("boundary", "count:add_shared", d, site=t["sp"])
                ctx.sample({"window": "count", "close_under": d})
            else:
                ctx.violation("boundary", "count:add_shared", "count window tests its size before storing the arriving event", site=t["sp"])
        elif "Le" in d and "len(" in d and d.index("len(") > d.index("Le") and "count" in d:
            ctx.ok("boundary", "count:add_shared", d, site=t["sp"])
        else:
            ctx.violation("boundary", "count:add_shared", "count window closes under `%s`; it must close with exactly its size, i.e. iff len >= count after the push" % d, site=t["sp"])
    for bb in direct:
        found = True
        nfs = relation_at(ctx, b, bb)
        hit = [nf for nf in nfs if "len(" in nf[1] and "count" in nf[2]]
        if hit and hit[0][0] == ">=" and pushes and all(b.dominates(p, bb) for p in pushes):
            ctx.ok("boundary", "count:add_shared", "%s >= %s" % (hit[0][1], hit[0][2]))
        else:
            ctx.violation("boundary", "count:add_shared", "count window closes under %s; expected len >= count after the push" % nfs, site=b.term(bb)["sp"])
    if not found:
        ctx.anchor_lost("boundary", "CountWindow::add_shared: close test not found")


def b_local_expansion(b, name):
    """if `name` is a plain local, the description of its single definition (e.g. window_end = add(window_start, duration))"""
    ls = b.locals_named(name)
    out = ""
    for l in ls:
        for d in b.defs.get(l, ()):
            if d[0] == "call":
                out += " " + "%s(%s)" % (d[2]["callee"].rsplit("::", 1)[-1], ",".join(b.desc(a) for a in d[2]["args"]))
            elif d[0] == "stmt":
                out += " " + " ".join(b.desc(o) for o in d[3]["o"])
    return out


def check_marker(ctx, struct, field, fns):
    """the marker field is reset (assigned None / moved out with Option::take / mem::take) only together with a buffer drain"""
    F = ctx.facts()
    for fn in fns:
        b = ctx.body(fn)
        if b is None:
            continue
        resets = []
        for bb in sorted(b.live):
            for s in b.stmts(bb):
                if s["d"]["p"] and any(isinstance(e, dict) and e.get("f") == field and e.get("a") == struct for e in s["d"]["p"][-1:]):
                    if s["k"] == "agg" and s.get("agg", "").endswith("Option::None"):
                        resets.append((bb, s["sp"], "= None"))
            t = b.term(bb)
            if t["k"] == "call" and (t["callee"].endswith("Option::<T>::take") or t["callee"].endswith("mem::take") or t["callee"].endswith("mem::replace")):
                if t["args"] and ("." + field) in b.desc(t["args"][0]):
                    resets.append((bb, t["sp"], t["callee"].rsplit("::", 2)[-2] + "::take"))
        drains = drain_blocks(ctx, b)
        for bb, sp, how in resets:
            key = "%s.%s:%s" % (struct.rsplit("::", 1)[1], field, fn.rsplit("::", 1)[1])
            # is there a path entry -> reset -> return that avoids every drain?
            pre = b.reachable(0, avoid_blocks=drains)
            bad = False
            if bb in pre:
                post = b.reachable(bb, avoid_blocks=[d for d in drains if d != bb])
                if any(r in post for r in b.return_blocks()):
                    bad = True
            if bad:
                ctx.violation("marker", key, "%s resets %s (%s) on a path that keeps the buffered events: the open window loses its boundary reference and the next event joins it unconditionally" % (fn[len(W):], field, how), site=sp)
            else:
                ctx.ok("marker", key, site=sp)


def check_delegation(ctx):
    F = ctx.facts()
    for outer, inner in (("PartitionedTumblingWindow", "TumblingWindow"), ("PartitionedSessionWindow", "SessionWindow")):
        fn = W + outer + "::add_shared"
        calls = {c["inst"] or c["callee"] for c in F.calls_from(fn)}
        if W + inner + "::add_shared" in calls:
            ctx.ok("delegation", outer)
        else:
            ctx.violation("delegation", outer, "%s::add_shared does not delegate to %s::add_shared (second implementation)" % (outer, inner))


def run(ctx):
    F = ctx.facts()
    adders = [W + "TumblingWindow::add_shared", W + "CountWindow::add_shared", W + "SessionWindow::add_shared"]
    for fn in adders:
        ctx.guard("push-once", lambda fn=fn: check_push_once(ctx, fn))
    emitters = adders + [W + "TumblingWindow::advance_watermark", W + "SessionWindow::advance_watermark", W + "SessionWindow::flush_shared",
                         W + "TumblingWindow::flush_shared", W + "CountWindow::flush_shared"]
    for fn in emitters:
        ctx.guard("emit-flows", lambda fn=fn: check_emit_flows(ctx, fn))
    ctx.guard("boundary", lambda: check_boundaries(ctx))
    for struct, field in ((W + "SessionWindow", "last_event_time"), (W + "TumblingWindow", "window_start")):
        fns = [p for p in F.mir_paths() if p.startswith(struct + "::") and "{closure" not in p and not p.endswith(("::restore", "::new"))]
        ctx.floor("marker", "methods of %s" % struct, len(fns), 8)
        ctx.guard("marker", lambda struct=struct, field=field, fns=fns: check_marker(ctx, struct, field, fns))
    ctx.guard("delegation", lambda: check_delegation(ctx))
