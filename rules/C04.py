"""C04 — partitions are independent (R-KEYED: keyed-state discipline)."""
from vpr.facts import root_fn
from vpr.prov import Slicer

EXPLANATION = (
    "R-KEYED on MIR + the field access index. Per-key containers: SaseEngine.partitioned_runs, the `windows` maps of the "
    "partitioned tumbling / sliding / session windows and of the partitioned count / sliding-count window states. Every map "
    "operation on such a container is classified: keyed (get, get_mut, entry, insert, remove, contains_key) — the key must "
    "derive (through locals, closures and, for parameters, every caller) from Value::to_partition_key applied to the value "
    "of the *configured* partition field of the event being processed — or whole-map (iter, values, values_mut, retain, "
    "clear, drain, len, keys), which is allowed only in the functions listed with a reason (checkpoint / restore / flush / "
    "statistics / time-driven expiry / global negation). Anything else lets one partition's events touch another's state."
    " The key function itself applies no lossy numeric conversion or case / whitespace normaliser."
)
DECIDED = ["every keyed access uses the engine's key function on the configured field", "cross-partition (whole-map) accesses occur only in listed time-driven / global functions", "Value::to_partition_key does not merge distinct key values of one type"]
NOT_DECIDED = ["key normalisation collisions of to_partition_key (excluded by the quantifier)", "aggregate arithmetic"]

R = "varpulis_runtime::"
KEYFN = "varpulis_core::value::Value::to_partition_key"
CONTAINERS = {
    (R + "sase::SaseEngine", "partitioned_runs"): ("partition_by",),
    (R + "window::PartitionedTumblingWindow", "windows"): ("partition_key",),
    (R + "window::PartitionedSlidingWindow", "windows"): ("partition_key",),
    (R + "window::PartitionedSessionWindow", "windows"): ("partition_key",),
    (R + "engine::types::PartitionedWindowState", "windows"): ("partition_key",),
    (R + "engine::types::PartitionedSlidingCountWindowState", "windows"): ("partition_key",),
}
KEYED = ("get", "get_mut", "entry", "insert", "remove", "contains_key", "get_or_insert_with", "remove_entry")
WHOLE = ("iter", "iter_mut", "values", "values_mut", "retain", "clear", "drain", "len", "keys", "is_empty", "into_iter", "clone", "into_values", "extract_if")
# function-name suffix -> reason a whole-map access is legitimate there
WHOLE_OK = {
    "checkpoint": "serialises all partitions", "restore": "rebuilds all partitions", "from_checkpoint": "rebuilds all partitions",
    "create_checkpoint": "serialises all partitions", "restore_checkpoint": "rebuilds all partitions",
    "flush_shared": "end-of-stream flush of every partition", "flush": "end-of-stream flush of every partition", "flush_columnar": "end-of-stream flush",
    "stats": "read-only statistics", "extended_stats": "read-only statistics", "total_run_count": "read-only statistics",
    "count_invalidated_runs": "read-only statistics", "active_run_snapshots": "read-only snapshot for forecasting",
    "cleanup_timeouts": "time-driven expiry, global by design", "cleanup_by_watermark": "time-driven expiry", "confirm_negations_processing_time": "time-driven confirmation",
    "confirm_negations_event_time": "time-driven confirmation", "advance_watermark": "watermark-driven close of every partition", "check_expired": "time-driven session expiry",
    "check_global_negations": "a `.not` clause is global by the statements of C01/C02", "current_all_shared": "read-only view", "current_all": "read-only view",
    "new": "constructor", "len": "read-only", "is_empty": "read-only", "partition_count": "read-only",
}


def derives_from_key(ctx, F, b, operand, depth=0, seen=None):
    """does the operand derive from to_partition_key()?  returns (bool, origins)"""
    seen = seen or set()
    o = Slicer(b).origins([operand])
    if o.has_call(KEYFN):
        return True, o
    for c in o.closures:
        for call in F.calls_from(c):
            if (call["inst"] or call["callee"]) == KEYFN:
                return True, o
    if depth >= 2:
        return False, o
    # parameters: every caller must supply a derived key
    if o.params:
        fn = b.path
        callers = [c for c in F.calls_to(fn)]
        it = F.fn_item(root_fn(fn))
        if not callers and it is not None and not it["pub"]:
            return True, o  # private function without callers in the workspace: dead code, nothing reaches it
        if callers:
            ok_all = True
            for (pi, pname) in o.params:
                if pname in ("self",):
                    continue
                for c in callers:
                    cb = ctx.body(c["f"])
                    t = cb.term(c["bb"])
                    if pi - 1 >= len(t["args"]) or (c["f"], c["bb"], pi) in seen:
                        continue
                    seen.add((c["f"], c["bb"], pi))
                    ok, _ = derives_from_key(ctx, F, cb, t["args"][pi - 1], depth + 1, seen)
                    if not ok:
                        ok_all = False
            non_self = [p for p in o.params if p[1] != "self"]
            if non_self and ok_all:
                return True, o
    return False, o


def run_keyfn(ctx):
    """the key function itself must separate distinct values: Value::to_partition_key may not pass a payload through a lossy
    numeric conversion (int -> float, float -> int, narrowing) or a case / whitespace normaliser — two distinct key values that
    render to one string share a partition"""
    F = ctx.facts()
    n = 0
    bad = []
    for p in F.bodies_of(KEYFN):
        b = ctx.body(p)
        if b is None:
            continue
        for bb in sorted(b.live):
            for s_ in b.stmts(bb):
                n += 1
                if s_["k"] == "cast" and s_.get("cast", "") in ("IntToFloat", "FloatToInt") or (s_["k"] == "cast" and s_.get("cast") == "IntToInt" and s_.get("from") != s_.get("to")):
                    bad.append(("%s -> %s" % (s_.get("from"), s_.get("to")), s_["sp"]))
            t = b.term(bb)
            if t["k"] == "call" and t["callee"].rsplit("::", 1)[-1] in ("to_lowercase", "to_uppercase", "to_ascii_lowercase", "to_ascii_uppercase", "trim", "trim_start", "trim_end", "round", "floor", "ceil", "trunc", "abs"):
                bad.append((t["callee"].rsplit("::", 1)[-1], t["sp"]))
    ctx.floor("key-fn", "statements of Value::to_partition_key examined", n, 5)
    if bad:
        ctx.violation("key-fn", "lossless", "Value::to_partition_key passes the key through a lossy conversion (%s): distinct key values (e.g. two 64-bit integers above 2^53) render to the same partition key, so events with different keys share runs / windows / aggregates" % bad[0][0], site=bad[0][1])
    else:
        ctx.ok("key-fn", "lossless", "no lossy numeric conversion or normaliser in the key function")


def run(ctx):
    ctx.guard("key-fn", lambda: run_keyfn(ctx))
    run_containers(ctx)


def run_containers(ctx):
    F = ctx.facts()
    n_keyed = n_whole = 0
    for (adt, field), keyfields in CONTAINERS.items():
        if F.fields(adt) is None:
            ctx.anchor_lost("keyed", "container %s.%s not found" % (adt, field))
            continue
        users = set(r["f"] for r in F.fieldacc if r["adt"] == adt and r["field"] == field and r["k"] in ("r", "m", "w", "rt", "mt", "wt"))
        ctx.floor("keyed", "functions touching %s.%s" % (adt.rsplit("::", 1)[1], field), len(users), 1)
        for p in sorted(users):
            b = ctx.body(p)
            if b is None:
                continue
            fn = root_fn(p)
            short = fn.rsplit("::", 1)[1]
            for bb, t in b.calls():
                if not t["args"]:
                    continue
                d0 = b.desc(t["args"][0])
                if not (d0.endswith("." + field) or d0 == field):
                    continue
                if "HashMap" not in t["atys"][0] and "hash::map" not in t["callee"]:
                    continue
                m = t["callee"].rsplit("::", 1)[1]
                key = "%s.%s:%s:%s" % (adt.rsplit("::", 1)[1], field, short, m)
                if m in KEYED:
                    n_keyed += 1
                    ok, o = derives_from_key(ctx, F, b, t["args"][1])
                    uses_field = any(f[1] in keyfields for f in o.fields) or any(pn for _, pn in o.params if pn and "key" in pn)
                    if short in WHOLE_OK and short in ("restore", "from_checkpoint", "checkpoint", "restore_checkpoint", "create_checkpoint"):
                        ctx.ok("keyed", key, "restore inserts checkpointed keys", site=t["sp"])
                    elif short in WHOLE_OK and (adt, field) in o.fields:
                        ctx.ok("keyed", key, "key taken from the container's own key set in a listed whole-map function (%s)" % WHOLE_OK[short], site=t["sp"])
                    elif ok:
                        ctx.ok("keyed", key, "key <- to_partition_key(event[%s])" % "/".join(keyfields), site=t["sp"])
                        if len(ctx.samples) < 10:
                            ctx.sample({"container": "%s.%s" % (adt.rsplit("::", 1)[1], field), "fn": short, "op": m, "key_from": o.summary()["calls"][:5]})
                    else:
                        ctx.violation("keyed", key, "%s accesses %s.%s by a key that does not derive from Value::to_partition_key of the event's partition field (origins: %s)" % (fn, adt.rsplit("::", 1)[1], field, o.summary()), site=t["sp"])
                elif m in WHOLE:
                    n_whole += 1
                    if short in WHOLE_OK:
                        ctx.ok("whole-map", key, WHOLE_OK[short], site=t["sp"])
                    else:
                        ctx.violation("whole-map", key, "%s walks all partitions of %s.%s (%s) on a path that is not a listed time-driven / global function: one partition's event reaches other partitions' state" % (fn, adt.rsplit("::", 1)[1], field, m), site=t["sp"])
                else:
                    ctx.violation("keyed", key, "unclassified map operation `%s` on a per-partition container" % m, site=t["sp"])
    ctx.floor("keyed", "keyed accesses examined", n_keyed, 7)
    ctx.floor("whole-map", "whole-map accesses examined", n_whole, 10)
