"""C42 — declaration loops expand like hand-written copies: the structural clauses (iteration order, range bounds, placeholder, substitution, fixpoint)."""
from vpr import hirq as H
from vpr.fmt import format_call

EXPLANATION = (
    "Statement-shape rules on type-checked HIR of varpulis_parser::expand. The property fixes what the expansion must be: "
    "the body copies for each value of the range, in order, with every `{var}` replaced. Clauses read off the code: "
    "(a) the copies are produced by a `for` over the half-open core::ops::Range built from the two integers returned by "
    "parse_for_range — not an inclusive range, not reversed / stepped — and the body lines are emitted inside it, in order, "
    "over the range body_start..body_end of the line vector; (b) parse_for_range tests the `..=` form before the `..` form "
    "(`..` is a substring of `..=`) and only the inclusive form adds 1 to the end; (c) the placeholder searched for is the "
    "format `{{{}}}` of the loop variable returned by parse_for_range, i.e. exactly `{var}`; (d) the substitution is "
    "str::replace (every occurrence; not replacen / replace_range) of that placeholder by to_string() of the loop value, and "
    "its result is what is appended to the output; (e) expand_declaration_loops re-applies the pass until the text no longer "
    "changes (nested loops become top-level after the outer expansion) and returns that fixpoint. Each clause is a "
    "necessary condition: breaking it changes the expansion for some loop."
)
DECIDED = ["iteration order and bounds of the copies", "placeholder form and all-occurrences substitution", "inclusive-range handling", "fixpoint iteration for nested loops"]
NOT_DECIDED = ["that the expanded text parses to the same program as hand-written copies (indentation stripping, blank lines, interaction with the indent pre-processor)", "loops whose header is not recognised by is_declaration_for"]

P = "varpulis_parser::expand::"


def local_of(e):
    e = H.strip(e)
    return H.local_key(e) if e is not None and e.get("k") == "path" else None


def run(ctx):
    F = ctx.facts()
    h = ctx.need_hir(P + "expand_one_pass", rule="expand")
    body = h["body"]
    # the tuple returned by parse_for_range and its bindings
    binds = None
    for x in H.walk(body):
        if x.get("k") in ("if", "letcond"):
            c = H.strip(x["cond"]) if x.get("k") == "if" else x
            if c is not None and c.get("k") == "letcond":
                calls = [y for y in H.walk(c["init"]) if y.get("k") == "call" and str(y.get("callee", "")).endswith("expand::parse_for_range")]
                if calls:
                    keys = H.pat_bind_keys(c["pat"])
                    if len(keys) == 3:
                        binds = keys
    if not binds:
        ctx.anchor_lost("expand", "`if let Some((var, start, end)) = parse_for_range(..)` not found in expand_one_pass")
        return
    var_k, start_k, end_k = binds
    # nested loops are expanded by the NEXT pass, after the enclosing loop's `{var}` has been substituted ("nested loops
    # expand as nested substitutions"): a pass that expands an inner loop itself, before substituting, binds an inner
    # `{i}` that shadows the outer one to the inner values
    rec = [c for c in F.calls_from(P + "expand_one_pass", nested=True) if (c["inst"] or c["callee"]) in (P + "expand_one_pass", P + "expand_declaration_loops")]
    if rec:
        ctx.violation("expand", "no-recursion", "expand_one_pass expands nested loops itself (it calls %s) before the enclosing loop's placeholder is substituted: a nested loop that reuses the variable name is bound to the inner values instead of the outer ones" % (rec[0]["inst"] or rec[0]["callee"]).rsplit("::", 1)[1], site=rec[0]["sp"])
    else:
        ctx.ok("expand", "no-recursion", "one pass expands one nesting level; nesting is handled by the fixpoint driver")
    fors = [x for x in H.walk(body) if x.get("k") == "for"]
    outer = None
    for f in fors:
        if "i64" in f.get("iter_ty", ""):
            outer = f
    if outer is None:
        ctx.anchor_lost("expand", "no loop over the integer range in expand_one_pass")
        return
    it = H.strip(outer["iter"])
    # a range bound to a local first (`let values = start..end; for val in values`) is resolved to its initialiser
    for _ in range(3):
        if it.get("k") == "path" and local_of(it):
            inits = [s for s in H.lets(body) if s["pat"]["k"] == "bind" and H.bind_key(s["pat"]) == local_of(it) and s.get("init") is not None]
            if len(inits) == 1:
                it = H.strip(inits[0]["init"])
                continue
        break
    if it.get("k") == "struct" and it["adt"] == "core::ops::range::Range":
        fl = {x["n"]: local_of(x["e"]) for x in it["fields"]}
        if fl.get("start") == start_k and fl.get("end") == end_k:
            ctx.ok("expand", "range", "copies for val in start..end (half-open, ascending), bounds from parse_for_range", site=outer["sp"])
        else:
            ctx.violation("expand", "range", "the copy loop runs over %s..%s, not over the (start, end) returned by parse_for_range" % (H.show(it["fields"][0]["e"]), H.show(it["fields"][1]["e"])), site=outer["sp"])
    else:
        ctx.violation("expand", "range", "the copies are not produced by a plain half-open `start..end` loop (iterator: %s): an inclusive, reversed or stepped iteration yields other copies, or another order, than the hand-written sequence" % H.show(it)[:60], site=outer["sp"])
    val_k = H.pat_bind_keys(outer["pat"])
    val_k = val_k[0] if val_k else None
    # inner loop over the body lines
    inner = [f for f in H.walk(outer["body"]) if f.get("k") == "for"]
    okinner = False
    for f in inner:
        i2 = H.strip(f["iter"])
        while i2.get("k") == "ref":
            i2 = H.strip(i2["e"])
        if i2.get("k") == "index" and "Range<usize>" in i2.get("ity", "") and H.strip(i2["i"]).get("k") == "struct" and H.strip(i2["i"])["adt"] == "core::ops::range::Range":
            okinner = True
            inner_f = f
    if okinner:
        ctx.ok("expand", "body-order", "body lines emitted in order inside each copy", site=inner_f["sp"])
    else:
        ctx.violation("expand", "body-order", "inside a copy the body lines are not walked in order over lines[body_start..body_end]", site=outer["sp"])
        return
    # placeholder
    pat_let = [s for s in H.lets(body) if s["pat"]["k"] == "bind" and s.get("init") is not None and any(format_call(y) for y in H.walk(s["init"]) if y.get("k") == "call")]
    placeholder = None
    for s in pat_let:
        for y in H.walk(s["init"]):
            fc = format_call(y) if y.get("k") == "call" else None
            if fc:
                tpl, args = fc
                if len(args) == 1 and local_of(args[0]) == var_k:
                    placeholder = (H.bind_key(s["pat"]), tpl, s)
    if placeholder is None:
        ctx.violation("expand", "placeholder", "no `format!(\"{{{}}}\", var)` of the loop variable found: the text searched for is not derived from the loop's variable name", site=h["span"])
        return
    pk, tpl, s = placeholder
    if tpl == ["{", None, "}"]:
        ctx.ok("expand", "placeholder", "placeholder is `{` var `}`", site=s["sp"] if "sp" in s else None)
    else:
        ctx.violation("expand", "placeholder", "the placeholder searched for is %s, not `{var}`" % "".join(p if p is not None else "<var>" for p in tpl), site=s.get("sp"))
    # substitution
    reps = [y for y in H.walk(inner_f["body"]) if y.get("k") == "mcall" and y["method"].startswith("replace")]
    good = None
    for y in reps:
        a0 = H.strip(y["args"][0]) if y["args"] else None
        while a0 is not None and a0.get("k") == "ref":
            a0 = H.strip(a0["e"])
        a1 = y["args"][1] if len(y["args"]) > 1 else None
        from_val = a1 is not None and any(local_of(z) == val_k for z in H.walk(a1) if z.get("k") == "path") and any(z.get("k") == "mcall" and z["method"] == "to_string" for z in H.walk(a1))
        if y["method"] == "replace" and str(y.get("def", "")).endswith("<impl str>::replace") and local_of(a0) == pk and from_val and len(y["args"]) == 2:
            good = y
    if good is None:
        ctx.violation("expand", "substitution", "body lines are not rewritten by str::replace(placeholder, val.to_string()) (found: %s): a bounded or positional replacement leaves later `{var}` occurrences of a line unexpanded" % [r["method"] for r in reps], site=inner_f["sp"])
    else:
        # its result must be what is pushed
        pushed = [y for y in H.walk(inner_f["body"]) if y.get("k") == "mcall" and y["method"] == "push_str" and any(z is good for z in H.walk(y["args"][0]))]
        if pushed:
            ctx.ok("expand", "substitution", "every `{var}` of a body line is replaced by the value and the result is appended", site=good["sp"])
        else:
            ctx.violation("expand", "substitution", "the substituted line is not what is appended to the output", site=good["sp"])
    # parse_for_range
    ph = ctx.need_hir(P + "parse_for_range", rule="expand")
    splits = []
    for x in H.walk(ph["body"]):
        if x.get("k") == "if":
            c = H.strip(x["cond"])
            if c.get("k") == "letcond":
                for y in H.walk(c["init"]):
                    if y.get("k") == "mcall" and y["method"] == "split_once" and y["args"]:
                        lit = H.strip(y["args"][0])
                        if lit.get("k") == "lit":
                            adds = [z for z in H.walk(x["then"]) if z.get("k") == "bin" and z["op"] == "Add" and H.show(z["r"]) == "1"]
                            # only the adds of this branch, not of the else chain
                            splits.append((lit["v"]["v"], bool(adds), x["sp"]))
    seps = [s_[0] for s_ in splits if ".." in str(s_[0])]
    if len(seps) < 2:
        ctx.anchor_lost("expand", "parse_for_range: the two split_once(\"..=\") / split_once(\"..\") tests were not found (%s)" % seps)
    else:
        first = [s_ for s_ in splits if ".." in str(s_[0])][0]
        second = [s_ for s_ in splits if ".." in str(s_[0])][1]
        if "..=" in str(first[0]) and "..=" not in str(second[0]):
            ctx.ok("expand", "inclusive-first", "`..=` is tested before `..`", site=first[2])
        else:
            ctx.violation("expand", "inclusive-first", "parse_for_range tests `..` before `..=`: `for i in 0..=3:` splits at `..` and `=3` does not parse, the loop is left unexpanded", site=first[2])
        incl = first if "..=" in str(first[0]) else second
        excl = second if incl is first else first
        if incl[1] and not excl[1]:
            ctx.ok("expand", "inclusive-end", "only the inclusive form adds 1 to the end", site=incl[2])
        else:
            ctx.violation("expand", "inclusive-end", "end adjustment is wrong: inclusive form adds 1: %s, exclusive form adds 1: %s" % (incl[1], excl[1]), site=incl[2])
    # fixpoint
    dh = ctx.need_hir(P + "expand_declaration_loops", rule="expand")
    rets = [x for x in H.walk(dh["body"]) if x.get("k") == "if" and any(y.get("k") == "ret" for y in H.walk(x["then"]))]
    fix = None
    for x in rets:
        c = H.strip(x["cond"])
        if c.get("k") == "bin" and c["op"] == "Eq":
            l, r = local_of(c["l"]), local_of(c["r"])
            okret = [y for y in H.walk(x["then"]) if y.get("k") == "ret" and y.get("e") is not None and "Ok" in H.show(y["e"])]
            if l and r and okret:
                fix = (x, l, r, okret[0])
    loops = [x for x in H.walk(dh["body"]) if x.get("k") in ("for", "loop")]
    if fix and loops and any(any(z is fix[0] for z in H.walk(lp["body"])) for lp in loops):
        ctx.ok("expand", "fixpoint", "the pass is repeated until the text no longer changes", site=fix[0]["sp"])
    else:
        ctx.violation("expand", "fixpoint", "expand_declaration_loops does not iterate expand_one_pass to a fixpoint (`if expanded == result { return Ok(..) }` inside the pass loop): a nested loop, which becomes top-level only after the outer expansion, stays unexpanded", site=dh["span"])
    ctx.sample({"bindings": [var_k, start_k, end_k], "placeholder_template": tpl, "range_tests": [s_[0] for s_ in splits]})
