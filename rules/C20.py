"""C20 — checkpoints survive serialisation (inverse arm tables, lossy conversions, non-finite floats under JSON, codec arms)."""
from vpr import hirq as H
from vpr.facts import root_fn

EXPLANATION = (
    "(a) R-ARMS inverse tables on HIR: value_to_serializable maps each Value variant to one SerializableValue variant and "
    "serializable_to_value maps it back to the same Value variant (composition = identity on variants, payload passed "
    "through); no wildcard arms; (b) lossy conversions on the save path: every DateTime::timestamp_millis call in a "
    "checkpoint-building function truncates sub-millisecond timestamps, which the statement requires to survive; (c) "
    "type-level: an f64 payload reachable from the checkpoint through derived Serialize without a serialize_with guard, "
    "written by a serde_json codec arm, cannot round-trip NaN / infinities (serde_json writes `null`, which does not read "
    "back as f64); (d) codec: serialize has an arm per CheckpointFormat variant without wildcard and the JSON arm's reader "
    "counterpart exists in deserialize."
    " (e) serde attribute symmetry on every type reachable from Checkpoint (attributes recovered by the extractor): a field omitted on output (skip_serializing[_if]) must be defaultable on input (Option or #[serde(default)]), no state field is skipped, custom codecs come in pairs."
)
DECIDED = ["variant bijection of the value converters", "millisecond truncation sites on the save path", "non-finite float representability in the JSON codec", "codec arms per format", "what the derived Serialize omits the derived Deserialize can default", "both Event <-> SerializableEvent converters copy every payload entry"]
NOT_DECIDED = ["contents of nested containers beyond the variant mapping", "format auto-detection on arbitrary bytes"]

P = "varpulis_runtime::persistence::"
VAL = "varpulis_core::value::Value"
SER = P + "SerializableValue"
HELPERS = {"varpulis_core::value::Value::array": "Array", "varpulis_core::value::Value::map": "Map", "varpulis_core::value::Value::str": "Str"}


def first_ctor(e, enum_path):
    """first variant of enum_path constructed / named in expression e"""
    for x in H.walk(e):
        if x.get("k") == "call" and isinstance(x["callee"], str):
            p = x["callee"].split(":", 1)[1]
            if p in HELPERS and enum_path == VAL:
                return HELPERS[p], x
            if p.startswith(enum_path + "::"):
                return p.rsplit("::", 1)[1], x
        if x.get("k") == "path":
            p = x["res"].split(":", 1)[1] if ":" in x["res"] else ""
            if p.startswith(enum_path + "::"):
                return p.rsplit("::", 1)[1], x
    return None, None


def arm_table(ctx, fn, src_enum, dst_enum):
    h = ctx.need_hir(fn, rule="inverse")
    ms = H.matches_on(h["body"], lambda t: t.endswith(src_enum.rsplit("::", 1)[1]) or src_enum in t)
    if not ms:
        ctx.anchor_lost("inverse", "%s: no match on %s" % (fn, src_enum))
        return None
    tab = {}
    for head, pat, arm in H.arm_rows(ms[0]):
        if head == "*":
            ctx.violation("inverse", "%s:wildcard" % fn.rsplit("::", 1)[1], "wildcard arm in %s: a variant added later is silently converted to something else" % fn, site=arm["sp"])
            continue
        v = head.rsplit("::", 1)[1]
        d, node = first_ctor(arm["body"], dst_enum)
        tab[v] = (d, arm)
    return tab


def run_inverse(ctx):
    F = ctx.facts()
    w = arm_table(ctx, P + "value_to_serializable", VAL, SER)
    r = arm_table(ctx, P + "serializable_to_value", SER, VAL)
    if w is None or r is None:
        return
    for v in F.variants(VAL):
        key = "Value::" + v
        if v not in w:
            ctx.violation("inverse", key, "value_to_serializable has no arm for Value::%s" % v)
            continue
        mid = w[v][0]
        back = r.get(mid, (None, None))[0] if mid else None
        if back == v:
            ctx.ok("inverse", key, "%s -> %s -> %s" % (v, mid, back), site=w[v][1]["sp"])
        else:
            ctx.violation("inverse", key, "Value::%s is written as SerializableValue::%s, which reads back as Value::%s" % (v, mid, back), site=w[v][1]["sp"])
    for sv in F.variants(SER):
        if sv not in r:
            ctx.violation("inverse", "SerializableValue::" + sv, "serializable_to_value has no arm for SerializableValue::%s" % sv)
    ctx.sample({"writer": {k: v[0] for k, v in w.items()}, "reader": {k: v[0] for k, v in r.items()}})


def run_lossy(ctx):
    F = ctx.facts()
    n = 0
    seen = {}
    for c in F.calls:
        if not c["callee"].endswith("::timestamp_millis") and not c["callee"].endswith("::timestamp_micros") :
            continue
        fn = root_fn(c["f"])
        if not fn.startswith(("varpulis_runtime::", "<varpulis_runtime::")):
            continue
        name = fn.rsplit("::", 1)[1]
        it = F.fn_item(fn) or {}
        is_save = name in ("checkpoint", "create_checkpoint") or ("SerializableEvent as core::convert::From<&" in fn)
        if not is_save or fn.endswith("CheckpointManager::checkpoint"):
            continue  # CheckpointManager stamps the checkpoint's own wall-clock creation time (metadata, not state)
        n += 1
        short = fn.replace("varpulis_runtime::", "")
        seen[short] = seen.get(short, 0) + 1
        if seen[short] > 1:
            continue
        ctx.violation("lossy", "%s:timestamp_millis" % short, "%s stores a timestamp with timestamp_millis(): sub-millisecond precision of event / window timestamps does not survive the checkpoint" % short, site=c["sp"])
    ctx.floor("lossy", "timestamp conversions on the save path", n, 1)


def run_nan(ctx):
    F = ctx.facts()
    st = F.struct(SER)
    if not st:
        ctx.anchor_lost("nan-json", "SerializableValue not found")
        return
    floats = [(v["n"], f) for v in st["variants"] for f in v["fields"] if f["ty"] in ("f64", "f32")]
    ctx.floor("nan-json", "float payloads in SerializableValue", len(floats), 1)
    # does a codec arm write with serde_json?
    json_writers = [c for c in F.calls if c["callee"].startswith("serde_json::ser::to_") and root_fn(c["f"]).startswith("varpulis_runtime::codec::")]
    if not json_writers:
        ctx.ok("nan-json", "no-json-codec", "no serde_json writer in the codec")
        return
    for vn, f in floats:
        a = " ".join(f["attrs"])
        if "serialize_with" in a or "with" in a.split():
            ctx.ok("nan-json", "SerializableValue::" + vn, "custom serialiser: " + a)
        else:
            ctx.violation("nan-json", "SerializableValue::" + vn, "SerializableValue::%s(f64) is serialised by the derived impl through serde_json (%s): NaN and infinities are written as `null`, which does not deserialise back into f64 — a checkpoint holding such a value cannot be read back" % (vn, json_writers[0]["sp"]), site=json_writers[0]["sp"])


def run_codec(ctx, cfg="default"):
    F = ctx.facts(cfg)
    fmt = "varpulis_runtime::codec::CheckpointFormat"
    vs = F.variants(fmt)
    h = ctx.need_hir("varpulis_runtime::codec::serialize", cfg, rule="codec")
    ms = H.matches_on(h["body"], lambda t: t.endswith("codec::CheckpointFormat"))
    if not ms or not vs:
        ctx.anchor_lost("codec", "serialize: no match on CheckpointFormat")
        return
    seen = set()
    for head, pat, arm in H.arm_rows(ms[0]):
        if head == "*":
            ctx.violation("codec", "wildcard[%s]" % cfg, "wildcard arm over CheckpointFormat in serialize", site=arm["sp"])
        else:
            seen.add(head.rsplit("::", 1)[1])
    dh = ctx.need_hir("varpulis_runtime::codec::deserialize", cfg, rule="codec")
    readers = {d.split("::")[0] for d, _ in H.calls_in(dh["body"]) if "from_slice" in d or "from_read" in d}
    writers = {}
    for head, pat, arm in H.arm_rows(ms[0]):
        if head != "*":
            writers[head.rsplit("::", 1)[1]] = {d.split("::")[0] for d, _ in H.calls_in(arm["body"]) if "to_vec" in d or "to_string" in d or "to_writer" in d}
    for v in vs:
        key = "%s[%s]" % (v, cfg)
        if v not in seen:
            ctx.violation("codec", key, "serialize has no arm for CheckpointFormat::%s" % v)
        elif not (writers.get(v, set()) & readers):
            ctx.violation("codec", key, "format %s is written with %s but deserialize reads with %s" % (v, sorted(writers.get(v, [])), sorted(readers)))
        else:
            ctx.ok("codec", key, "written and read with %s" % sorted(writers[v] & readers))


def run_copy(ctx):
    """the two event converters copy EVERY payload entry: in `From<&Event> for SerializableEvent` and `From<SerializableEvent> for
    Event` the loop over the source map inserts each (key, value) unconditionally — no key-dependent `if` / `continue` /
    `filter` around the insert (a field skipped by name is missing from the restored event)"""
    from vpr import hirq as H
    F = ctx.facts()
    convs = [p for p in F.find_fns(r"^<varpulis_runtime::persistence::SerializableEvent as core::convert::From<&?varpulis_runtime::event::Event>>::from$|^<varpulis_runtime::event::Event as core::convert::From<varpulis_runtime::persistence::SerializableEvent>>::from$|<impl core::convert::From<varpulis_runtime::persistence::SerializableEvent> for varpulis_runtime::event::Event>::from$", "hir")]
    ctx.floor("copy", "Event <-> SerializableEvent converters", len(convs), 2)
    for p in convs:
        h = F.hir(p)
        name = "Event->SerializableEvent" if p.startswith("<varpulis_runtime::persistence::SerializableEvent") else "SerializableEvent->Event"
        loops = [x for x in H.walk(h["body"]) if x.get("k") == "for"]
        its = [x for x in H.walk(h["body"]) if x.get("k") == "mcall" and x["method"] in ("filter", "filter_map", "skip", "take", "skip_while", "take_while", "retain")]
        if not loops and not any(x.get("k") == "mcall" and x["method"] == "collect" for x in H.walk(h["body"])):
            ctx.anchor_lost("copy", "%s: no loop / collect over the payload map" % name)
            continue
        bad = None
        for lp in loops:
            ins = [x for x in H.walk(lp["body"]) if x.get("k") == "mcall" and x["method"] == "insert"]
            if not ins:
                continue
            for x in H.walk(lp["body"]):
                if x.get("k") == "if" and any(id(y) == id(ins[0]) for y in H.walk(x)):
                    bad = ("an `if` around the insert (%s)" % H.show(x["cond"])[:50], x["sp"])
                if x.get("k") == "continue":
                    bad = ("a `continue` in the copy loop", x.get("sp"))
        if its:
            bad = bad or ("%s(..) on the payload iterator" % its[0]["method"], its[0]["sp"])
        if bad:
            ctx.violation("copy", name, "%s does not copy every payload field: %s — a field skipped here is missing from every checkpointed and restored event" % (name, bad[0]), site=bad[1])
        else:
            ctx.ok("copy", name, "every payload entry is inserted unconditionally")


def run(ctx):
    ctx.guard("copy", lambda: run_copy(ctx))
    ctx.guard("inverse", lambda: run_inverse(ctx))
    ctx.guard("lossy", lambda: run_lossy(ctx))
    ctx.guard("nan-json", lambda: run_nan(ctx))
    ctx.guard("codec", lambda: run_codec(ctx))
    from vpr import serdeattr
    ctx.guard("serde", lambda: serdeattr.check(ctx, "serde", ["varpulis_runtime::persistence::Checkpoint"], 40))
    if ctx.tier == "thorough":
        ctx.guard("codec", lambda: run_codec(ctx, "codec"))
