"""C13 — sliding windows contain the events in range (count-based clauses; time-based shape recorded)."""
from vpr import hirq as H

EXPLANATION = (
    "On type-checked HIR of window.rs / engine/types.rs. Count-sliding (the clauses the statement fixes): each add stores the "
    "event once and increments events_since_emit once, unconditionally; the buffer is trimmed to the last window_size events by "
    "draining the prefix 0..len.saturating_sub(window_size); an emission happens exactly under len >= window_size && "
    "events_since_emit >= slide_size (conjunct set compared, order-independent), returns the whole buffer and resets the "
    "counter — and the counter is reset nowhere else in add_shared. Time-sliding: eviction is a prefix drain up to the first "
    "retained element and the emission test compares event_time with last_emit + slide_interval (strictness not demanded: "
    "'within the window size' leaves the boundary open). The partitioned variants delegate to the plain windows."
)
DECIDED = ["count-sliding keeps exactly the last N", "count-sliding emits exactly when the window is full and the slide count has elapsed, and only then resets the counter",
           "time-sliding evicts a prefix and tests the slide interval against the previous emission", "partitioned sliding windows delegate"]
NOT_DECIDED = ["contents of a time-sliding emission for arbitrary timestamps", "boundary strictness of the time window"]

W = "varpulis_runtime::window::"


def norm(e):
    return H.show(e).replace("self.", "")


def conjuncts(c):
    c = H.strip(c)
    if c is not None and c.get("k") == "bin" and c["op"] == "And":
        return conjuncts(c["l"]) + conjuncts(c["r"])
    return [c]


def canon_rel(c):
    """`a >= b` / `b <= a` -> ('>=', a, b)"""
    c = H.strip(c)
    if c.get("k") != "bin" or c["op"] not in ("Ge", "Gt", "Le", "Lt"):
        return ("?", norm(c), "")
    a, b, op = norm(c["l"]), norm(c["r"]), c["op"]
    if op in ("Le", "Lt"):
        a, b = b, a
        op = {"Le": "Ge", "Lt": "Gt"}[op]
    return (">=" if op == "Ge" else ">", a, b)


def top_stmts(h):
    body = h["body"]
    out = []
    for s in body["stmts"]:
        out.append(s)
    return out, body["tail"]


def run_count(ctx):
    fn = W + "SlidingCountWindow::add_shared"
    h = ctx.need_hir(fn, rule="count-sliding")
    stmts, tail = top_stmts(h)
    pushes = [s for s in stmts if s["k"] == "expr" and H.strip(s["e"]).get("k") == "mcall" and H.strip(s["e"])["method"] == "push_back" and "events" in norm(H.strip(s["e"])["recv"])]
    all_pushes = [x for x in H.walk(h["body"]) if x.get("k") == "mcall" and x["method"] in ("push_back", "push_front", "push")]
    if len(pushes) == 1 and len(all_pushes) == 1:
        ctx.ok("count-sliding", "store-once")
    else:
        ctx.violation("count-sliding", "store-once", "the arriving event is stored %d times unconditionally (%d in total) instead of exactly once" % (len(pushes), len(all_pushes)), site=h["span"])
    incs = [s for s in stmts if s["k"] == "expr" and H.strip(s["e"]).get("k") == "assign" and H.strip(s["e"])["op"] == "Add" and "events_since_emit" in norm(H.strip(s["e"])["l"]) and norm(H.strip(s["e"])["r"]) == "1"]
    all_writes = [x for x in H.walk(h["body"]) if x.get("k") == "assign" and "events_since_emit" in norm(x["l"])]
    if len(incs) == 1:
        ctx.ok("count-sliding", "count-once")
    else:
        ctx.violation("count-sliding", "count-once", "events_since_emit is not incremented exactly once per add (unconditional increments by 1: %d)" % len(incs), site=h["span"])
    # trim to last N
    drains = [x for x in H.walk(h["body"]) if x.get("k") == "mcall" and x["method"] == "drain" and "events" in norm(x["recv"])]
    lets = {s["pat"]["name"]: s["init"] for s in H.lets(h["body"]) if s["pat"]["k"] == "bind" and s["init"] is not None}
    ok = False
    why = "no drain of the buffer found"
    for d in drains:
        rng = H.strip(d["args"][0])
        if rng.get("k") != "struct":
            why = "drain argument is not a range"
            continue
        f = {x["n"]: x["e"] for x in rng["fields"]}
        start = norm(f["start"]) if "start" in f else None
        end = H.local_name(f.get("end"))
        init = norm(lets[end]) if end in lets else norm(f.get("end")) if f.get("end") is not None else ""
        if start == "0" and init == "events.len().saturating_sub(window_size)":
            ok = True
        else:
            why = "drains %s..%s (%s); keeping exactly the last N needs 0..len.saturating_sub(window_size)" % (start, end, init)
    if ok:
        ctx.ok("count-sliding", "keep-last-n")
    else:
        ctx.violation("count-sliding", "keep-last-n", why, site=drains[0]["sp"] if drains else h["span"])
    # emission
    t = H.strip(tail) if tail is not None else None
    if t is None or t.get("k") != "mcall" or t["method"] not in ("then",):
        ctx.anchor_lost("count-sliding", "emission is not `(cond).then(|| ..)` (unrecognised shape)")
        return
    got = sorted(canon_rel(c) for c in conjuncts(t["recv"]))
    want = sorted([(">=", "events.len()", "window_size"), (">=", "events_since_emit", "slide_size")])
    if got == want:
        ctx.ok("count-sliding", "emit-condition", str(got))
        ctx.sample({"count_sliding_emit_under": ["%s %s %s" % (a, r, b) for r, a, b in got]})
    else:
        ctx.violation("count-sliding", "emit-condition", "count-sliding emits under %s; the statement fixes: first when the window is full, then every slide_size events, i.e. %s" % (
            ["%s %s %s" % (a, r, b) for r, a, b in got], ["%s %s %s" % (a, r, b) for r, a, b in want]), site=t["sp"])
    clo = H.strip(t["args"][0]) if t["args"] else None
    resets_in = [x for x in H.walk(clo) if x.get("k") == "assign" and x["op"] is None and "events_since_emit" in norm(x["l"]) and norm(x["r"]) == "0"] if clo else []
    resets_all = [x for x in all_writes if x["op"] is None]
    if len(resets_in) == 1 and len(resets_all) == 1:
        ctx.ok("count-sliding", "reset-on-emit")
    else:
        ctx.violation("count-sliding", "reset-on-emit", "events_since_emit is reset %d time(s) on the emitting path and %d time(s) in total; it must be reset exactly when emitting" % (len(resets_in), len(resets_all)), site=t["sp"])
    whole = clo is not None and any(x.get("k") == "mcall" and x["method"] == "iter" and "events" in norm(x["recv"]) for x in H.walk(clo)) and not any(x.get("k") == "mcall" and x["method"] in ("skip", "take", "rev", "filter") for x in H.walk(clo))
    if whole:
        ctx.ok("count-sliding", "emit-whole-buffer")
    else:
        ctx.violation("count-sliding", "emit-whole-buffer", "the emission is not the whole buffer in order", site=t["sp"])


def run_time(ctx):
    fn = W + "SlidingWindow::add_shared"
    h = ctx.need_hir(fn, rule="time-sliding")
    drains = [x for x in H.walk(h["body"]) if x.get("k") == "mcall" and x["method"] == "drain" and "events" in norm(x["recv"])]
    ok = False
    for d in drains:
        rng = H.strip(d["args"][0])
        if rng.get("k") == "struct":
            f = {x["n"]: x["e"] for x in rng["fields"]}
            if "start" in f and norm(f["start"]) == "0":
                ok = True
    if ok:
        ctx.ok("time-sliding", "prefix-eviction")
    else:
        ctx.violation("time-sliding", "prefix-eviction", "eviction is not a drain of a prefix 0..k of the buffer", site=h["span"])
    # locals are identified by role, not by name: event_time = a let bound to `<event>.timestamp`; cutoff = a let bound to
    # `<event_time> - self.window_size`; last = the binding of `Some(..)` in a match on `self.last_emit`
    ren = {}
    for s_ in H.lets(h["body"]):
        if s_["pat"]["k"] != "bind" or s_.get("init") is None:
            continue
        i_ = H.strip(s_["init"])
        if i_.get("k") == "field" and i_["name"] == "timestamp":
            ren[s_["pat"]["name"]] = "event_time"
    for s_ in H.lets(h["body"]):
        if s_["pat"]["k"] != "bind" or s_.get("init") is None:
            continue
        i_ = H.strip(s_["init"])
        if i_.get("k") == "bin" and i_["op"] == "Sub" and H.strip(i_["r"]).get("k") == "field" and H.strip(i_["r"])["name"] == "window_size" and ren.get(H.local_name(i_["l"])) == "event_time":
            ren[s_["pat"]["name"]] = "cutoff"
    for m_ in H.walk(h["body"]):
        if m_.get("k") == "match" and H.strip(m_["scrut"]).get("k") == "field" and H.strip(m_["scrut"])["name"] == "last_emit":
            for a_ in m_["arms"]:
                for nm in H.pat_binds(a_["pat"]):
                    ren[nm] = "last"
    import re as _re

    def role(txt):
        for k_, v_ in ren.items():
            if k_ != v_:
                txt = _re.sub(r"\b%s\b" % _re.escape(k_), v_, txt)
        return txt
    crel = lambda x: tuple(role(y) for y in canon_rel(x))
    rels = [crel(x) for x in H.walk(h["body"]) if x.get("k") == "bin" and x["op"] in ("Ge", "Gt", "Le", "Lt")]
    emit = [r for r in rels if "slide_interval" in r[1] + r[2]]
    if emit and emit[0][1] == "event_time" and "last" in emit[0][2]:
        ctx.ok("time-sliding", "slide-test", "%s %s %s" % (emit[0][1], emit[0][0], emit[0][2]))
        ctx.sample({"time_sliding_emit_under": "%s %s %s" % (emit[0][1], emit[0][0], emit[0][2])})
    else:
        ctx.violation("time-sliding", "slide-test", "emission is not decided by comparing event_time with last_emit + slide_interval (%s)" % emit, site=h["span"])
    evict = [r for r in rels if "cutoff" in r[1] + r[2]]
    cut = [s for s in H.lets(h["body"]) if s["pat"]["k"] == "bind" and ren.get(s["pat"]["name"]) == "cutoff"]
    # direction of the eviction predicate: a `position`/`find` closure must describe the first RETAINED event
    # (timestamp >= cutoff), a `partition_point`/`take_while` closure the EXPIRED prefix (timestamp < cutoff)
    wrong_dir = None
    for mc in H.walk(h["body"]):
        if mc.get("k") == "mcall" and mc["method"] in ("position", "find", "partition_point", "take_while", "skip_while"):
            for r in (crel(x) for a in mc["args"] for x in H.walk(a) if x.get("k") == "bin" and x["op"] in ("Ge", "Gt", "Le", "Lt")):
                if "cutoff" not in r[1] + r[2]:
                    continue
                retained_pred = "cutoff" in r[2]  # (>=|>, timestamp, cutoff)
                want_retained = mc["method"] in ("position", "find")
                if retained_pred != want_retained:
                    wrong_dir = (mc["method"], r)
    if wrong_dir:
        ctx.violation("time-sliding", "cutoff", "%s(..) over the buffer tests `%s %s %s`: the predicate selects the wrong side of the cutoff (events inside the window are evicted / expired ones kept)" % (
            wrong_dir[0], wrong_dir[1][1], wrong_dir[1][0], wrong_dir[1][2]), site=h["span"])
    elif evict and cut and role(norm(cut[0]["init"])) == "(event_time - window_size)":
        ctx.ok("time-sliding", "cutoff", "retain iff %s %s %s, cutoff = event_time - window_size" % (evict[0][1], evict[0][0], evict[0][2]))
    else:
        ctx.violation("time-sliding", "cutoff", "eviction cutoff is not event_time - window_size compared with the events' timestamps", site=h["span"])


def run_delegation(ctx):
    F = ctx.facts()
    for outer, inner in (("varpulis_runtime::engine::types::PartitionedSlidingCountWindowState::add", W + "SlidingCountWindow::add_shared"),
                         (W + "PartitionedSlidingWindow::add_shared", W + "SlidingWindow::add_shared")):
        calls = {c["inst"] or c["callee"] for c in F.calls_from(outer)}
        if inner in calls:
            ctx.ok("delegation", outer.rsplit("::", 2)[1])
        else:
            ctx.violation("delegation", outer.rsplit("::", 2)[1], "%s does not delegate to %s" % (outer, inner))


def run(ctx):
    ctx.guard("count-sliding", lambda: run_count(ctx))
    ctx.guard("time-sliding", lambda: run_time(ctx))
    ctx.guard("delegation", lambda: run_delegation(ctx))
