"""C46 — both event-file readers agree (R-DLIST decision-list agreement)."""
from vpr import hirq as H

EXPLANATION = (
    "R-DLIST on type-checked HIR: the preload reader (EventFileParser::parse, per line of the loop over lines()) and the "
    "streaming reader (EventFileParser::parse_line, called by StreamingEventReader::next) classify a line by a cascade of "
    "prefix tests (is_empty / starts_with literal). The cascades are extracted in order as (prefix -> skip | directive | "
    "strip-prefix | delegate-to-leaf-parser) and compared per prefix class: a class must yield an event in both readers or "
    "in neither, and event lines must reach the same leaf parsers."
)
DECIDED = ["per prefix class (empty, #, //, BATCH, @, {, other): event-or-not agreement of the two readers", "same leaf parsers for JSON and .evt lines", "streaming iterator delegates every line to parse_line", "both readers normalise (trim) a line identically before classifying it"]
NOT_DECIDED = ["field values inside the leaf parsers (shared code)", "oversized-line skipping of the streaming reader (documented limit)"]

PRELOAD = "varpulis_runtime::event_file::EventFileParser::parse"
STREAM = "varpulis_runtime::event_file::EventFileParser::parse_line"
NEXT_RX = r"StreamingEventReader<R> as core::iter::traits::iterator::Iterator>::next$"


def prefix_preds(cond):
    """[(literal)] for a disjunction of is_empty()/starts_with(lit) tests; None if unrecognised"""
    cond = H.strip(cond)
    if cond.get("k") == "bin" and cond["op"] == "Or":
        l, r = prefix_preds(cond["l"]), prefix_preds(cond["r"])
        if l is None or r is None:
            return None
        return l + r
    if cond.get("k") == "mcall":
        if cond["method"] == "is_empty" and cond["recv_ty"].endswith("str"):
            return [""]
        if cond["method"] == "starts_with" and cond["args"]:
            a = H.strip(cond["args"][0])
            if a.get("k") == "lit" and a["v"]["t"] in ("str", "char"):
                return [a["v"]["v"]]
    return None


def is_none_result(e):
    """Ok(None)"""
    e = H.strip(e)
    if e is None or e.get("k") != "call":
        return False
    if not (isinstance(e["callee"], str) and e["callee"].endswith("Result::Ok")):
        return False
    a = H.strip(e["args"][0])
    return a.get("k") == "path" and a["res"].endswith("Option::None")


def leaf_calls(F, e, leaves):
    return [d for d, _ in H.calls_in(e) if d in leaves]


def block_exit(blk):
    """'continue' | 'return-none' | 'return' | None for the last statement of a block"""
    blk = blk if blk.get("k") == "block" else {"k": "block", "stmts": [], "tail": blk}
    last = blk["tail"]
    if last is None and blk["stmts"]:
        s = blk["stmts"][-1]
        last = s["e"] if s["k"] == "expr" else None
    last = H.strip(last) if last else None
    if last is None:
        return None
    if last.get("k") == "continue":
        return "continue"
    if last.get("k") == "ret":
        return "return-none" if is_none_result(last["e"]) else "return"
    return None


def decision_list(ctx, F, path, stmts, tail, leaves, strippers):
    """ordered [(prefixes, action)] ; action = ('none', why) | ('strip', fn) | ('leaf', fn)"""
    dl = []
    default = None

    def classify_value(e):
        ls = leaf_calls(F, e, leaves)
        if ls:
            return ("leaf", ls[0])
        st = [d for d, _ in H.calls_in(e) if d in strippers]
        if st:
            return ("strip", st[0])
        return None

    items = list(stmts) + ([{"k": "expr", "e": tail}] if tail is not None else [])
    for s in items:
        e = None
        if s["k"] == "expr":
            e = H.strip(s["e"])
        elif s["k"] == "let" and s["init"] is not None:
            e = H.strip(s["init"])
        if e is None:
            continue
        if e.get("k") == "if":
            preds = prefix_preds(e["cond"])
            if preds is None:
                # not a prefix test: only relevant if it decides about events
                if leaf_calls(F, e, leaves):
                    ctx.anchor_lost("dlist", "%s: event parsing under an unrecognised condition `%s`" % (path, H.show(e["cond"])[:80]))
                continue
            ex = block_exit(e["then"])
            v = classify_value(e["then"])
            if v:
                dl.append((preds, v))
            elif ex in ("continue", "return-none"):
                dl.append((preds, ("none", ex)))
            else:
                ctx.anchor_lost("dlist", "%s: prefix test %s with an unrecognised action" % (path, preds))
            if e["else"] is not None:
                v2 = classify_value(e["else"])
                if v2:
                    default = v2
            continue
        v = classify_value(e)
        if v and s["k"] == "expr":
            default = v
        elif v and s["k"] == "let" and default is None:
            default = v
    return dl, default


def action_for(cls, dl, default, depth=0):
    """resolve the action chain for a prefix class; returns ('none',..) or ('event', leaf)"""
    for preds, act in dl:
        if any((p == "" and cls == "") or (p != "" and cls.startswith(p)) for p in preds):
            if act[0] == "none":
                return ("none", act[1])
            if act[0] == "leaf":
                return ("event", act[1])
            if act[0] == "strip":
                # the rest of the line is an event line again: classified by the later tests; it yields an event
                return ("event", "after-strip")
    if default is None:
        return ("?", None)
    return ("event", default[1]) if default[0] == "leaf" else ("event", "after-strip")


def run(ctx):
    F = ctx.facts()
    hp = ctx.need_hir(PRELOAD, rule="dlist")
    hs = ctx.need_hir(STREAM, rule="dlist")
    # leaf parsers: fns of the parser type producing Result<Event, _> from a &str, other than the two readers
    leaves = set()
    strippers = set()
    for p, it in F.items.items():
        if it["k"] != "fn" or not p.startswith("varpulis_runtime::event_file::EventFileParser::"):
            continue
        if p in (PRELOAD, STREAM):
            continue
        if it["inputs"] == ["&str"] and it["output"].startswith("core::result::Result<varpulis_runtime::event::Event,"):
            leaves.add(p)
        if it["inputs"] == ["&str"] and "&str" in it["output"] and it["output"].startswith("core::result::Result<("):
            strippers.add(p)
    ctx.floor("dlist", "leaf line parsers (str -> Result<Event>)", len(leaves), 2)
    ctx.floor("dlist", "prefix strippers (str -> Result<(_, &str)>)", len(strippers), 1)

    # preload: statements of the `for .. in source.lines()` body
    loops = [x for x in H.walk(hp["body"]) if x.get("k") == "for" and any(d.endswith("str::<impl str>::lines") or d.endswith("::lines") for d, _ in H.calls_in(x["iter"]))]
    if len(loops) != 1:
        ctx.anchor_lost("dlist", "preload reader: expected one loop over lines(), found %d" % len(loops))
        return
    lb = H.strip(loops[0]["body"])
    dl_p, def_p = decision_list(ctx, F, PRELOAD, lb["stmts"], lb["tail"], leaves, strippers)
    sb = hs["body"]
    dl_s, def_s = decision_list(ctx, F, STREAM, sb["stmts"], sb["tail"], leaves, strippers)
    # both readers must normalise a line the same way BEFORE classifying it (the classes are prefix tests): the string
    # normalisers applied by `let line = line.<normaliser>()` statements ahead of the first prefix test
    def normalisers(stmts):
        out = []
        for st in stmts:
            if st.get("k") == "let" and st.get("init") is not None:
                e = H.strip(st["init"])
                while e is not None and e.get("k") == "mcall":
                    if e["method"] in ("trim", "trim_start", "trim_end", "trim_matches", "trim_start_matches", "trim_end_matches", "to_lowercase", "to_uppercase", "strip_prefix", "strip_suffix"):
                        out.append(e["method"])
                    e = H.strip(e["recv"])
            elif st.get("k") in ("expr", "semi") or st.get("k") == "if":
                break
        return sorted(out)
    np_, ns_ = normalisers(lb["stmts"]), normalisers(sb["stmts"])
    if np_ == ns_:
        ctx.ok("dlist", "normalise", "both readers classify the line after %s" % (np_ or "no normalisation"))
    else:
        ctx.violation("dlist", "normalise", "the preload reader classifies a line after %s, the streaming reader after %s: an indented comment / BATCH / JSON line is skipped (or parsed as JSON) by one reader and handed to the .evt parser by the other" % (np_ or "no normalisation", ns_ or "no normalisation"), site=hs["span"])
    ctx.sample({"reader": "preload", "decision_list": [[p, list(a)] for p, a in dl_p], "default": list(def_p) if def_p else None})
    ctx.sample({"reader": "streaming", "decision_list": [[p, list(a)] for p, a in dl_s], "default": list(def_s) if def_s else None})
    classes = sorted(set(p for preds, _ in dl_p + dl_s for p in preds) | {"", "<other>"})
    ctx.floor("dlist", "prefix classes tested by the readers", len(classes), 6)
    for c in classes:
        probe = c if c != "<other>" else "\x00other"
        ap = action_for(probe, dl_p, def_p)
        as_ = action_for(probe, dl_s, def_s)
        key = "class:%r" % c
        if ap[0] == "?" or as_[0] == "?":
            ctx.anchor_lost("dlist", "no default action for class %r (preload %s, streaming %s)" % (c, ap, as_))
            continue
        if ap[0] != as_[0]:
            ctx.violation("dlist", key, "lines starting with %r: the preload reader %s, the streaming reader %s" % (
                c, "parses an event" if ap[0] == "event" else "skips the line (%s)" % ap[1],
                "parses an event" if as_[0] == "event" else "skips the line (%s)" % as_[1]), site=hs["span"])
        elif ap[0] == "event" and ap[1] != as_[1]:
            ctx.violation("dlist", key, "lines starting with %r are parsed by %s in the preload reader but by %s in the streaming reader" % (c, ap[1], as_[1]), site=hs["span"])
        else:
            ctx.ok("dlist", key, "%s in both" % (ap,))
    # leaf order inside the strip path / default path: both must test '{' before falling back to the evt parser
    for name, dl, dflt in (("preload", dl_p, def_p), ("streaming", dl_s, def_s)):
        leaf_used = {a[1] for _, a in dl if a[0] == "leaf"} | ({dflt[1]} if dflt and dflt[0] == "leaf" else set())
        if leaf_used != leaves:
            ctx.violation("dlist", "leaves:%s" % name, "%s reader uses leaf parsers %s, expected %s" % (name, sorted(leaf_used), sorted(leaves)))
        else:
            ctx.ok("dlist", "leaves:%s" % name)
    # the streaming iterator must hand every line to parse_line
    nx = F.find_fns(NEXT_RX, "hir")
    if len(nx) != 1:
        ctx.anchor_lost("dlist", "StreamingEventReader::next not found")
        return
    hn = F.hir(nx[0])
    if STREAM not in [d for d, _ in H.calls_in(hn["body"])]:
        ctx.violation("dlist", "stream-delegates", "StreamingEventReader::next does not classify lines through EventFileParser::parse_line")
    else:
        ctx.ok("dlist", "stream-delegates")
