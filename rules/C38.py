"""C38 — coordinator views stay in sync with the replicated state (R-REPL replication coverage; cfg raft)."""
from vpr.facts import root_fn

EXPLANATION = (
    "cfg raft. R-REPL: for every entry that changes coordinator state — each HTTP handler of cluster/api.rs and the "
    "coordinator health loop of the CLI — W is the set of mirrored components of the local Coordinator view written "
    "transitively (field access index over the call-graph closure inside varpulis_cluster: worker map, worker status, "
    "assigned_pipelines, pipeline groups / placements, connectors, migrations, scaling policy, models) and R is the set of "
    "ClusterCommand variants the entry constructs for client_write. cover(variant) is the component its apply_command arm "
    "writes. W must be included in the union of cover(R): a component changed locally without a covering command is "
    "reverted (or never seen by followers) at the next sync_from_raft."
)
DECIDED = ["which locally changed components each entry replicates"]
NOT_DECIDED = ["values carried by the commands", "ordering between local change and replication", "load metrics (pipelines_running, events_processed): refreshed by heartbeats, listed as non-mirrored"]

C = "varpulis_cluster::"
COORD = C + "coordinator::Coordinator"
# (adt, field, access kinds) -> replicated component
MIRROR = {
    (COORD, "workers"): "workers",
    (C + "worker::WorkerNode", "status"): "workers.status",
    (C + "worker::WorkerNode", "assigned_pipelines"): "workers.assigned_pipelines",
    (COORD, "pipeline_groups"): "pipeline_groups",
    (C + "pipeline_group::DeployedPipelineGroup", "placements"): "pipeline_groups",
    (COORD, "connectors"): "connectors",
    (COORD, "active_migrations"): "active_migrations",
    (COORD, "scaling_policy"): "scaling_policy",
    (COORD, "model_registry"): "models",
}
COVER = {
    "RegisterWorker": {"workers", "workers.status", "workers.assigned_pipelines"},
    "DeregisterWorker": {"workers", "workers.status", "workers.assigned_pipelines"},
    "WorkerStatusChanged": {"workers.status"},
    "WorkerPipelinesUpdated": {"workers.assigned_pipelines"},
    "GroupDeployed": {"pipeline_groups"}, "GroupUpdated": {"pipeline_groups"}, "GroupRemoved": {"pipeline_groups"},
    "MigrationStarted": {"active_migrations"}, "MigrationUpdated": {"active_migrations"}, "MigrationRemoved": {"active_migrations"},
    "ConnectorCreated": {"connectors"}, "ConnectorUpdated": {"connectors"}, "ConnectorRemoved": {"connectors"},
    "ScalingPolicySet": {"scaling_policy"},
    "ModelRegistered": {"models"}, "ModelRemoved": {"models"},
}
EXCLUDE_FNS = ("::sync_from_raft", "::update_raft_role", "::new", "::with_raft", "::default")


def run_register_fresh(ctx, cfg="raft"):
    """local mutator vs replicated arm: Coordinator::register_worker inserts a FRESH WorkerNode (no assigned pipelines, zero
    counters), so the RegisterWorker arm of apply_command must build its WorkerEntry from the command payload and constants
    only — a field taken over from the previous replicated entry makes the two views differ right after the acknowledged
    registration, and the next sync_from_raft overwrites the local one"""
    from vpr.prov import Slicer
    F = ctx.facts(cfg)
    fn = "varpulis_cluster::raft::state_machine::apply_command"
    b = ctx.body(fn, cfg)
    if b is None:
        ctx.anchor_lost("mirror", "apply_command not found (cfg %s)" % cfg)
        return
    n = 0
    for bb in sorted(b.live):
        for s_ in b.stmts(bb):
            if s_["k"] == "agg" and s_.get("agg", "").endswith("state_machine::WorkerEntry"):
                n += 1
                for fname, op in zip(s_.get("fields", []), s_["o"]):
                    o = Slicer(b).origins([op])
                    from_state = any(nm == "state" for _, nm in o.params) or any(a.endswith("CoordinatorState") for a, _ in o.fields)
                    key = "register:WorkerEntry.%s" % fname
                    if from_state:
                        ctx.violation("mirror", key, "the RegisterWorker arm of apply_command fills WorkerEntry.%s from the previous replicated state, while the local Coordinator::register_worker inserts a fresh node: after an acknowledged re-registration the coordinator's view and the replicated state disagree on %s, and the next sync_from_raft reverts the local view to the stale value" % (fname, fname), site=s_["sp"])
                    else:
                        ctx.ok("mirror", key, "from the command payload / a constant")
    ctx.floor("mirror", "WorkerEntry literals in apply_command", n, 1)


def run(ctx):
    ctx.guard("mirror", lambda: run_register_fresh(ctx))
    F = ctx.facts("raft")
    cg = ctx.cg("raft")
    variants = F.variants(C + "raft::ClusterCommand")
    if not variants:
        ctx.anchor_lost("repl", "ClusterCommand not found")
        return
    missing_cover = [v for v in variants if v not in COVER]
    if missing_cover:
        ctx.violation("repl", "cover-table", "ClusterCommand variants without a cover entry in the rule: %s" % missing_cover)
    # cover table agrees with apply_command's writes (component names are CoordinatorState fields)
    st_fields = {f["n"] for f in (F.fields(C + "raft::state_machine::CoordinatorState") or [])}
    need = {"workers", "pipeline_groups", "connectors", "active_migrations", "scaling_policy", "models"}
    if not need <= st_fields:
        ctx.anchor_lost("repl", "CoordinatorState fields changed: %s" % sorted(st_fields))
        return
    # writes per function
    writes = {}
    map_fields = {f for (a, f) in MIRROR if a == COORD}
    for r in F.fieldacc:
        comp = MIRROR.get((r["adt"], r["field"]))
        if not comp:
            continue
        if r["adt"] == COORD:
            # a map of the coordinator: a whole-field assignment changes it; a `&mut` borrow only if a membership-changing
            # map method is called on it (insert / remove / retain / clear / entry / drain) — get_mut is not a change of the map
            if r["k"] == "w":
                writes.setdefault(root_fn(r["f"]), set()).add(comp)
            continue
        if r["k"] in ("w", "m", "wt", "mt"):
            writes.setdefault(root_fn(r["f"]), set()).add(comp)
    for p in F.mir_paths():
        if not (p.startswith(C) or p.startswith("<" + C)):
            continue
        if not any(r for r in ()):
            pass
        b = ctx.body(p, "raft")
        for bb, t in b.calls():
            m = t["callee"].rsplit("::", 1)[1]
            if m in ("insert", "remove", "retain", "clear", "entry", "drain", "extend") and t["args"]:
                d = b.desc(t["args"][0])
                for fld in map_fields:
                    if d.endswith("." + fld) and ("self" in d or "coord" in d or "deref" in d):
                        writes.setdefault(root_fn(p), set()).add(MIRROR[(COORD, fld)])
    made = {}
    for r in F.fieldacc:
        if r["adt"].startswith(C + "raft::ClusterCommand::") and r["k"] == "init":
            made.setdefault(root_fn(r["f"]), set()).add(r["adt"].rsplit("::", 1)[1])
    entries = sorted({root_fn(p) for p in F.mir_paths() if p.startswith(C + "api::handle_")})
    # the health loop: the closure (spawned task) of the CLI's run_coordinator that calls health_sweep; only what that
    # closure calls belongs to the entry (run_coordinator itself also builds the HTTP routes)
    loop_starts = {}
    for p in F.mir_paths():
        if "run_coordinator::{closure" in p and "@bin" in p:
            cs = F.calls_from(p, nested=True)
            if any((c["inst"] or c["callee"]).endswith("Coordinator::health_sweep") for c in cs):
                key = "health_loop"
                loop_starts.setdefault(key, set()).update(root_fn(c["inst"] or c["callee"]) for c in cs if (c["inst"] or c["callee"]).startswith((C, "<" + C)))
                made.setdefault(key, set())
                for r in F.fieldacc:
                    if r["f"].startswith(p) and r["adt"].startswith(C + "raft::ClusterCommand::") and r["k"] == "init":
                        made[key].add(r["adt"].rsplit("::", 1)[1])
    entries += sorted(loop_starts)
    n = 0
    for e in entries:
        start = sorted(loop_starts[e]) if e in loop_starts else e
        reach = cg.reach(start, within=lambda f: (f.startswith(C) or f.startswith("<" + C)) and not f.endswith(EXCLUDE_FNS))
        if e in loop_starts:
            reach = set(reach) | {e}
        reach = {f for f in reach if not f.endswith(EXCLUDE_FNS)}
        W = set()
        who = {}
        for f in reach:
            for comp in writes.get(f, ()):
                W.add(comp)
                who.setdefault(comp, f)
        if not W:
            continue
        n += 1
        R = set()
        for f in reach:
            R |= made.get(f, set())
        covered = set().union(*[COVER.get(v, set()) for v in R]) if R else set()
        name = e.rsplit("::", 1)[-1]
        for comp in sorted(W):
            key = "%s:%s" % (name, comp)
            if comp in covered:
                ctx.ok("repl", key, "covered by %s" % sorted(v for v in R if comp in COVER.get(v, ())))
            else:
                ctx.violation("repl", key, "%s changes `%s` of the local coordinator view (in %s) but replicates only %s: the change is not in the Raft state, followers never see it and the next sync_from_raft reverts it" % (
                    name, comp, who[comp].rsplit("::", 1)[1], sorted(R) or "nothing"))
        if len(ctx.samples) < 12:
            ctx.sample({"entry": name, "writes": sorted(W), "replicates": sorted(R)})
    ctx.floor("repl", "state-changing entries analysed", n, 10)
