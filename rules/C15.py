"""C15 — joins: the one structural clause (R-SORTED: binary-search precondition)."""
from vpr.facts import root_fn
from vpr.prov import Slicer

EXPLANATION = (
    "R-SORTED on MIR: every partition_point / binary_search* call in the workspace is located; for the join buffer's "
    "per-key vector the predicate `ts < cutoff` assumes the vector is sorted by timestamp. All writers of vectors of the same "
    "element type in the module are enumerated: a writer that appends (`push`) an element whose key is the arriving event's "
    "own timestamp keeps the order only for in-order streams, which the property's quantifier does not assume. With an "
    "unsorted vector partition_point returns an arbitrary index and in-window events are expired (or expired ones kept)."
)
DECIDED = ["sortedness precondition of the only binary search on the join path"]
NOT_DECIDED = ["correlation condition", "choice of the most recent event per source", "per-key cap eviction"]


def run(ctx):
    F = ctx.facts()
    sites = [c for c in F.calls if c["callee"].endswith("::partition_point") or "::binary_search" in c["callee"]]
    ws = [c for c in sites if c["f"].startswith("varpulis_")]
    ctx.floor("sorted", "binary-search sites in the workspace", len(ws), 1)
    for c in ws:
        fn = root_fn(c["f"])
        b = ctx.body(c["f"])
        t = b.term(c["bb"])
        elem_ty = t["atys"][0]
        name = fn.rsplit("::", 2)[-2] + "::" + fn.rsplit("::", 1)[1]
        # writers of vectors with the same element type in the same module
        mod = fn.rsplit("::", 2)[0]
        elem = elem_ty[elem_ty.find("[") + 1: elem_ty.rfind("]")] if "[" in elem_ty else elem_ty
        appenders = []
        sorters = []
        for p in F.mir_paths():
            if not p.startswith(mod + "::"):
                continue
            pb = ctx.body(p)
            for bb, tt in pb.calls():
                if not tt["atys"]:
                    continue
                if tt["atys"][0].replace("alloc::vec::", "").startswith(("&mut Vec<" + elem, "&mut [" + elem)):
                    m = tt["callee"].rsplit("::", 1)[1]
                    if m == "push":
                        o = Slicer(pb).origins([tt["args"][1]])
                        from_ts = any(f[1] == "timestamp" for f in o.fields)
                        if "restore" in p or "from_checkpoint" in p:
                            continue
                        appenders.append((p, tt["sp"], from_ts))
                    elif m.startswith("sort") or m == "insert":
                        sorters.append((p, tt["sp"]))
        key = "%s:partition_point" % name
        # an appending writer keeps the order only if it re-establishes it itself (a sort / sorted insert in the same
        # function); a sort somewhere else (e.g. only on restore) does not help the events pushed afterwards
        bad = [a for a in appenders if a[2] and not any(root_fn(s[0]) == root_fn(a[0]) for s in sorters)]
        if bad:
            ctx.violation("sorted", key, "%s binary-searches a vector that %s fills by push() keyed with the arriving event's own timestamp and never sorts: with out-of-order timestamps (e.g. buffered [100, 50], cutoff 100) partition_point answers an arbitrary index and in-window events are dropped" % (name, root_fn(bad[0][0]).rsplit("::", 1)[1]), site=t["sp"], path=[bad[0][1], t["sp"]])
        elif appenders or sorters:
            ctx.ok("sorted", key, "writers keep the order: %s" % [root_fn(s[0]).rsplit("::", 1)[1] for s in sorters], site=t["sp"])
        else:
            ctx.anchor_lost("sorted", "%s: no writer of the searched vector type `%s` found in %s" % (name, elem, mod))
        ctx.sample({"search_site": t["sp"], "element_type": elem, "appenders": [a[1] for a in appenders], "sorters": [s[1] for s in sorters]})
