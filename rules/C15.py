"""C15 — joins: the one structural clause (R-SORTED: binary-search precondition)."""
from vpr.facts import root_fn
from vpr.prov import Slicer
from vpr import hirq as H

J = "varpulis_runtime::join::JoinBuffer::"
PK = "(chrono::datetime::DateTime<chrono::offset::utc::Utc>, varpulis_runtime::event::Event)"

EXPLANATION = (
    "R-SORTED on MIR: every partition_point / binary_search* call in the workspace is located; for the join buffer's "
    "per-key vector the predicate `ts < cutoff` assumes the vector is sorted by timestamp. All writers of vectors of the same "
    "element type in the module are enumerated: a writer that appends (`push`) an element whose key is the arriving event's "
    "own timestamp keeps the order only for in-order streams, which the property's quantifier does not assume. With an "
    "unsorted vector partition_point returns an arbitrary index and in-window events are expired (or expired ones kept)."
)
DECIDED = ["sortedness precondition of the only binary search on the join path",
           "per-key buffers are arrival-ordered: appended at the back, evicted from the front only",
           "the event chosen per source is the last in-window element of the arrival-ordered buffer",
           "the window test of correlation and the expiry test of cleanup use the same cutoff and never expire what correlation accepts",
           "the arriving event is stored, expired and correlated under one key and its own timestamp"]
NOT_DECIDED = ["that every source is consulted", "upper bound of the window for out-of-order arrivals", "field merging of the joined event"]


def run(ctx):
    ctx.guard("correlate", lambda: run_correlate(ctx))
    run_sorted(ctx)


def run_sorted(ctx):
    F = ctx.facts()
    sites = [c for c in F.calls if c["callee"].endswith("::partition_point") or "::binary_search" in c["callee"]]
    ws = [c for c in sites if c["f"].startswith("varpulis_")]
    ctx.floor("sorted", "binary-search sites in the workspace", len(ws), 1)
    for c in ws:
        fn = root_fn(c["f"])
        b = ctx.body(c["f"])
        t = b.term(c["bb"])
        elem_ty = t["atys"][0]
        name = fn.rsplit("::", 2)[-2] + "::" + fn.rsplit("::", 1)[1]
        # writers of vectors with the same element type in the same module
        mod = fn.rsplit("::", 2)[0]
        elem = elem_ty[elem_ty.find("[") + 1: elem_ty.rfind("]")] if "[" in elem_ty else elem_ty
        appenders = []
        sorters = []
        for p in F.mir_paths():
            if not p.startswith(mod + "::"):
                continue
            pb = ctx.body(p)
            for bb, tt in pb.calls():
                if not tt["atys"]:
                    continue
                if tt["atys"][0].replace("alloc::vec::", "").startswith(("&mut Vec<" + elem, "&mut [" + elem)):
                    m = tt["callee"].rsplit("::", 1)[1]
                    if m == "push":
                        o = Slicer(pb).origins([tt["args"][1]])
                        from_ts = any(f[1] == "timestamp" for f in o.fields)
                        if "restore" in p or "from_checkpoint" in p:
                            continue
                        appenders.append((p, tt["sp"], from_ts))
                    elif m.startswith("sort") or m == "insert":
                        sorters.append((p, tt["sp"]))
        key = "%s:partition_point" % name
        # an appending writer keeps the order only if it re-establishes it itself (a sort / sorted insert in the same
        # function); a sort somewhere else (e.g. only on restore) does not help the events pushed afterwards
        bad = [a for a in appenders if a[2] and not any(root_fn(s[0]) == root_fn(a[0]) for s in sorters)]
        if bad:
            ctx.violation("sorted", key, "%s binary-searches a vector that %s fills by push() keyed with the arriving event's own timestamp and never sorts: with out-of-order timestamps (e.g. buffered [100, 50], cutoff 100) partition_point answers an arbitrary index and in-window events are dropped" % (name, root_fn(bad[0][0]).rsplit("::", 1)[1]), site=t["sp"], path=[bad[0][1], t["sp"]])
        elif appenders or sorters:
            ctx.ok("sorted", key, "writers keep the order: %s" % [root_fn(s[0]).rsplit("::", 1)[1] for s in sorters], site=t["sp"])
        else:
            ctx.anchor_lost("sorted", "%s: no writer of the searched vector type `%s` found in %s" % (name, elem, mod))
        ctx.sample({"search_site": t["sp"], "element_type": elem, "appenders": [a[1] for a in appenders], "sorters": [s[1] for s in sorters]})


# ----------------------------------------------------------------------------------------------------------------
# correlation clauses (type-checked HIR of JoinBuffer)

FRONT_ONLY = {"remove": "front", "drain": "front"}
ORDER_BREAKING = {"pop": "removes the most recently arrived event", "truncate": "removes the most recently arrived events",
                  "swap_remove": "moves the last element into the hole", "reverse": "reverses arrival order",
                  "rotate_left": "rotates arrival order", "rotate_right": "rotates arrival order", "swap": "swaps two elements",
                  "split_off": "removes the most recently arrived events", "dedup_by_key": "drops events", "dedup_by": "drops events"}


def is_pk_mut(ty):
    t = ty.replace("alloc::vec::", "").replace(", alloc::alloc::Global", "")
    return t.startswith("&mut Vec<" + PK) or t.startswith("&mut [" + PK)


def cutoff_role(h):
    """locals bound to `<time> - self.window_duration`  ->  {binding key: show(time operand)}"""
    out = {}
    for s in H.lets(h["body"]):
        if s["pat"]["k"] != "bind" or s.get("init") is None:
            continue
        i = H.strip(s["init"])
        if i.get("k") == "bin" and i["op"] == "Sub":
            r = H.strip(i["r"])
            if r.get("k") == "field" and r["name"] == "window_duration":
                out[H.bind_key(s["pat"])] = H.show(i["l"])
    return out


def ts_vs_cutoff(clo, cutoffs):
    """normal form of the closure's test: ('>=' | '>' | '<' | '<='), read as  <tuple.0>  REL  cutoff ; None if not that shape"""
    b = H.strip(clo["body"])
    if b is None or b.get("k") != "bin" or b["op"] not in ("Ge", "Gt", "Le", "Lt"):
        return None
    first = clo["params"][0] if clo.get("params") else None
    if not first or first["k"] != "tuple" or first["sub"][0]["k"] != "bind":
        return None
    ts = H.bind_key(first["sub"][0])
    l, r = H.local_key(b["l"]), H.local_key(b["r"])
    rel = {"Ge": ">=", "Gt": ">", "Le": "<=", "Lt": "<"}[b["op"]]
    if l == ts and r in cutoffs:
        return rel
    if r == ts and l in cutoffs:
        return {">=": "<=", ">": "<", "<=": ">=", "<": ">"}[rel]
    return None


def chain(e):
    """method names from the receiver outwards: key_events.iter().rev().find(..) -> ['iter','rev','find']"""
    out = []
    e = H.strip(e)
    while e is not None and e.get("k") == "mcall":
        out.append(e["method"])
        e = H.strip(e["recv"])
    return list(reversed(out)), e


def run_correlate(ctx):
    R = "correlate"
    # ---- 1. arrival order: every mutation of a per-key buffer in JoinBuffer keeps 'oldest arrival first'
    F = ctx.facts()
    muts = 0
    fns = [p for p in F.hir_paths() if p.startswith(J)] if hasattr(F, "hir_paths") else []
    if not fns:
        fns = [J + n for n in ("add_event", "try_correlate", "cleanup_expired", "restore", "checkpoint", "stats", "new")]
    for fn in fns:
        h = F.hir(fn)
        if h is None:
            continue
        short = fn.rsplit("::", 1)[1]
        for x in H.walk(h["body"]):
            if x.get("k") != "mcall" or not is_pk_mut(x.get("recv_ty", "")):
                continue
            m = x["method"]
            key = "order:%s:%s" % (short, m)
            if m in ORDER_BREAKING:
                muts += 1
                ctx.violation(R, key, "%s calls %s() on a per-key join buffer: %s, so the element found from the back is no longer the most recently arrived in-window event (or an in-window event is lost)" % (short, m, ORDER_BREAKING[m]), site=x["sp"])
            elif m == "remove":
                muts += 1
                a = H.strip(x["args"][0])
                if a.get("k") == "lit" and a["v"].get("v") == "0":
                    ctx.ok(R, key, "evicts the oldest arrival (index 0)", site=x["sp"])
                else:
                    ctx.violation(R, key, "%s removes element `%s` of a per-key join buffer; the cap may only evict the oldest arrival (index 0)" % (short, H.show(a)), site=x["sp"])
            elif m == "drain":
                muts += 1
                a = H.strip(x["args"][0])
                fields = {f["n"]: f["e"] for f in a["fields"]} if a.get("k") == "struct" else None
                front = fields is not None and ("start" not in fields or H.show(fields["start"]) == "0") and "end" in fields
                if front:
                    ctx.ok(R, key, "drains a prefix", site=x["sp"])
                else:
                    ctx.violation(R, key, "%s drains `%s` of a per-key join buffer; expiry may only remove a prefix (the oldest arrivals)" % (short, H.show(a)), site=x["sp"])
            elif m == "push":
                muts += 1
                ctx.ok(R, key, "appends at the back", site=x["sp"])
    ctx.floor(R, "mutations of per-key join buffers examined", muts, 3)

    # ---- 2./3. selection in try_correlate and expiry in cleanup_expired
    ht = ctx.need_hir(J + "try_correlate", rule=R)
    hc = ctx.need_hir(J + "cleanup_expired", rule=R)
    cut_t, cut_c = cutoff_role(ht), cutoff_role(hc)
    if not cut_t or not cut_c:
        ctx.anchor_lost(R, "no local bound to `<time> - self.window_duration` in try_correlate / cleanup_expired")
        return
    params_t = [H.bind_key(p) for p in ht["params"] if p["k"] == "bind"]
    sel = []
    for x in H.walk(ht["body"]):
        if x.get("k") == "mcall" and x["args"] and H.strip(x["args"][0]).get("k") == "closure":
            rel = ts_vs_cutoff(H.strip(x["args"][0]), cut_t)
            if rel:
                sel.append((x, rel))
    if len(sel) != 1:
        ctx.anchor_lost(R, "try_correlate: expected one iterator adaptor testing the stored timestamp against the cutoff, found %d" % len(sel))
        return
    x, rel = sel[0]
    ms, root = chain(x)
    # what follows the adaptor (filter(..).last() etc.): find the enclosing chain
    outer = [y for y in H.walk(ht["body"]) if y.get("k") == "mcall" and x in [z for z in H.walk(y["recv"])]]
    after = []
    for y in sorted(outer, key=lambda y: len(chain(y)[0])):
        after = chain(y)[0][len(ms):]
    after = [m for m in after if m not in ("map", "cloned", "copied")]
    revs = ms.count("rev") % 2
    m = ms[-1]
    newest = None
    if m == "find":
        newest = revs == 1
    elif m == "rfind":
        newest = revs == 0
    elif m == "filter" and after[:1] in (["last"], ["next_back"]):
        newest = revs == 0
    elif m == "filter" and after[:1] == ["next"]:
        newest = revs == 1
    elif m in ("rposition",):
        newest = revs == 0
    elif m in ("position",):
        newest = revs == 1
    if not (ms and ms[0] in ("iter", "iter_mut")) or newest is None:
        ctx.anchor_lost(R, "try_correlate: selection `%s` is not a recognised first/last-match form" % H.show(x)[:120])
        return
    if newest:
        ctx.ok(R, "select:most-recent", ".".join(ms), site=x["sp"])
    else:
        ctx.violation(R, "select:most-recent", "try_correlate picks the FIRST in-window element of the arrival-ordered per-key buffer (`%s`), i.e. the oldest arrival; the joined output must carry the most recently arrived in-window event of each source" % ".".join(ms + after[:1]), site=x["sp"])
    if rel in (">=", ">"):
        ctx.ok(R, "select:window-side", "stored ts %s cutoff" % rel, site=x["sp"])
    else:
        ctx.violation(R, "select:window-side", "try_correlate accepts events whose timestamp is %s the cutoff (current - window): that selects the events OUTSIDE the window" % rel, site=x["sp"])
    # the cutoff's time operand is the function's time parameter
    tm = list(cut_t.values())[0]
    if any(tm == p.split("#")[0] for p in params_t):
        ctx.ok(R, "select:cutoff-from-arrival", tm)
    else:
        ctx.violation(R, "select:cutoff-from-arrival", "try_correlate's cutoff is computed from `%s`, not from the time handed in by add_event" % tm, site=ht["span"])
    # cleanup: partition_point / retain / position closure against its cutoff
    exp = []
    for y in H.walk(hc["body"]):
        if y.get("k") == "mcall" and y["args"] and H.strip(y["args"][0]).get("k") == "closure":
            r2 = ts_vs_cutoff(H.strip(y["args"][0]), cut_c)
            if r2:
                exp.append((y, r2))
    if len(exp) != 1:
        ctx.anchor_lost(R, "cleanup_expired: expected one predicate testing the stored timestamp against the cutoff, found %d" % len(exp))
        return
    y, r2 = exp[0]
    if y["method"] == "retain":
        removed = {">=": "<", ">": "<=", "<": ">=", "<=": ">"}[r2]
    elif y["method"] in ("partition_point", "position", "take_while"):
        # partition_point(p): prefix where p holds is drained; position(p): prefix before the first p is drained
        removed = r2 if y["method"] != "position" else {">=": "<", ">": "<=", "<": ">=", "<=": ">"}[r2]
    else:
        ctx.anchor_lost(R, "cleanup_expired: unrecognised expiry form `%s`" % y["method"])
        return
    accepted = rel
    # removed must be disjoint from accepted: (< with >=), (< with >), (<= with >)
    if removed in ("<", "<=") and accepted in (">=", ">") and not (removed == "<=" and accepted == ">="):
        ctx.ok(R, "expiry:disjoint-from-window", "cleanup removes ts %s cutoff, correlation accepts ts %s cutoff" % (removed, accepted), site=y["sp"])
    else:
        ctx.violation(R, "expiry:disjoint-from-window", "cleanup_expired removes events with ts %s cutoff while try_correlate accepts ts %s cutoff: an event the window test accepts can be expired first, so whether a join fires depends on when garbage collection ran" % (removed, accepted), site=y["sp"])
    ctx.sample({"selection": ".".join(ms + after[:1]), "accepts": "ts %s cutoff" % accepted, "cleanup_removes": "ts %s cutoff" % removed})

    # ---- 4. add_event: one key, own timestamp
    ha = ctx.need_hir(J + "add_event", rule=R)
    ev = [H.bind_key(p) for p in ha["params"] if p["k"] == "bind"]
    ev_param = ev[-1]  # (self, source_name, event)
    def is_ev_ts(e):
        e = H.strip(e)
        return e is not None and e.get("k") == "field" and e["name"] == "timestamp" and H.local_key(e["e"]) == ev_param
    calls = {m: [z for z in H.walk(ha["body"]) if z.get("k") == "mcall" and z["method"] == m] for m in ("try_correlate", "cleanup_expired", "entry", "push")}
    tc = calls["try_correlate"]
    en = [z for z in calls["entry"] if PK in z.get("recv_ty", "")]
    pu = [z for z in calls["push"] if is_pk_mut(z.get("recv_ty", ""))]
    if len(tc) != 1 or len(en) != 1 or len(pu) != 1:
        ctx.anchor_lost(R, "add_event: expected one try_correlate call, one entry() on the per-key map and one push (found %d/%d/%d)" % (len(tc), len(en), len(pu)))
        return
    def keyloc(e):
        e = H.strip(e)
        while e is not None and e.get("k") == "mcall" and e["method"] in ("clone", "as_str", "to_string", "to_owned", "as_ref"):
            e = H.strip(e["recv"])
        return H.local_key(e)
    k1, k2 = keyloc(en[0]["args"][0]), keyloc(tc[0]["args"][0])
    if k1 is not None and k1 == k2:
        ctx.ok(R, "add:one-key", k1.split("#")[0], site=tc[0]["sp"])
    else:
        ctx.violation(R, "add:one-key", "add_event stores the event under `%s` but correlates under `%s`" % (H.show(en[0]["args"][0]), H.show(tc[0]["args"][0])), site=tc[0]["sp"])
    # the key local comes from to_partition_key of the event's own field
    klet = [s for s in H.lets(ha["body"]) if s["pat"]["k"] == "bind" and H.bind_key(s["pat"]) == k1]
    from_pk = klet and any(z.get("k") == "mcall" and z["method"] == "to_partition_key" for z in H.walk(klet[0]["init"])) and any(
        z.get("k") == "mcall" and z["method"] == "get" and H.local_key(z["recv"]) == ev_param for z in H.walk(klet[0]["init"]))
    if from_pk:
        ctx.ok(R, "add:key-from-event", "to_partition_key of the arriving event's field")
    else:
        ctx.violation(R, "add:key-from-event", "the join key is not `to_partition_key()` of a field read from the arriving event", site=ha["span"])
    if is_ev_ts(tc[0]["args"][1]):
        ctx.ok(R, "add:correlate-at-own-time", site=tc[0]["sp"])
    else:
        ctx.violation(R, "add:correlate-at-own-time", "try_correlate is called with `%s` instead of the arriving event's timestamp" % H.show(tc[0]["args"][1]), site=tc[0]["sp"])
    tup = H.strip(pu[0]["args"][0])
    ok_t = tup.get("k") == "tuple" and is_ev_ts(tup["es"][0]) and any(H.local_key(z) == ev_param for z in H.walk(tup["es"][1]))
    if ok_t:
        ctx.ok(R, "add:stored-with-own-time", site=pu[0]["sp"])
    else:
        ctx.violation(R, "add:stored-with-own-time", "the buffered pair is `%s`: the stored timestamp must be the stored event's own" % H.show(tup), site=pu[0]["sp"])
    # push and correlate are unconditional w.r.t. cleanup: push happens before try_correlate in source order
    if int(pu[0]["sp"].split(":")[-2]) < int(tc[0]["sp"].split(":")[-2]):
        ctx.ok(R, "add:store-before-correlate")
    else:
        ctx.violation(R, "add:store-before-correlate", "the arriving event is correlated before it is stored, so it can never be part of its own match", site=tc[0]["sp"])
