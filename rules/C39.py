"""C39 — injected connector declarations carry the stored parameters (R-SANIT: escape-or-validate)."""
import re

from vpr import hirq as H

EXPLANATION = (
    "R-SANIT on type-checked HIR: ClusterConnector::to_vpl_declaration renders each stored parameter value into VPL source. "
    "The format templates are decoded from the desugared format_args (literal pieces / placeholders); a placeholder that is "
    "surrounded by double quotes in the template is a quoted interpolation. Its argument must pass through an escaping "
    "function (a call whose name says escape / quote / sanitise, or a replace of `\"` and `\\`), or validate_connector — "
    "which every stored connector passed — must restrict parameter values to the reader's faithful domain (a test of the "
    "values for `\"` / `\\`). The reader side is the parser's string rule, which takes the text between the quotes without "
    "unescaping, so a value containing a quote ends the literal early for every such value."
)
DECIDED = ["whether quoted parameter values are escaped on rendering or restricted on validation"]
NOT_DECIDED = ["numeric-looking values rendered unquoted (needs the two number grammars)", "that injection leaves the rest of the pipeline unchanged"]

CC = "varpulis_cluster::connector_config::"


def decode_template(lit):
    """compact format template (rustc >= 1.9x): 0xC0 = placeholder, n (<0x80) = literal of n bytes follows, 0 = end"""
    m = re.match(r"ByteStr\(\[([0-9, ]*)\]", lit)
    if not m:
        return None
    bs = [int(x) for x in m.group(1).split(",") if x.strip()]
    out = []
    i = 0
    while i < len(bs):
        b = bs[i]
        if b == 0:
            return out if i == len(bs) - 1 else None
        if b == 0xC0:
            out.append(None)
            i += 1
        elif b < 0x80:
            if i + 1 + b > len(bs):
                return None
            try:
                out.append(bytes(bs[i + 1:i + 1 + b]).decode("utf-8"))
            except UnicodeDecodeError:
                return None
            i += 1 + b
        else:
            return None
    return None


def run(ctx):
    F = ctx.facts()
    fn = CC + "ClusterConnector::to_vpl_declaration"
    h = ctx.need_hir(fn, rule="sanit")
    quoted = []
    n_templates = 0
    for fcall in H.walk(h["body"]):
        if not (fcall.get("k") == "call" and isinstance(fcall["callee"], str) and fcall["callee"].endswith("alloc::fmt::format")):
            continue
        # format!(..) desugars to format({ let args = [Argument::new_display(&a), ..]; Arguments::new(template, &args) })
        tnode = None
        arg_exprs = []
        for y in H.walk(fcall["args"][0]):
            if y.get("k") == "call" and isinstance(y["callee"], str):
                if y["callee"].endswith("fmt::Arguments::<'a>::new") and len(y["args"]) == 2:
                    tnode = y
                elif "fmt::rt::Argument" in y["callee"] and "::new_" in y["callee"]:
                    arg_exprs.append(y["args"][0])
        if tnode is None:
            continue
        # arguments are usually captured first: `let args = (&k, &v);` then `Argument::new_display(args.1)`
        tuples = {s_["pat"]["name"]: H.strip(s_["init"]) for s_ in H.lets(fcall["args"][0])
                  if s_["pat"]["k"] == "bind" and s_["init"] is not None and H.strip(s_["init"]).get("k") == "tuple"}
        resolved = []
        for a in arg_exprs:
            a_ = H.strip(a)
            if a_.get("k") == "field" and a_["name"].isdigit() and H.local_name(a_["e"]) in tuples:
                es = tuples[H.local_name(a_["e"])]["es"]
                if int(a_["name"]) < len(es):
                    a_ = H.strip(es[int(a_["name"])])
            resolved.append(a_)
        arg_exprs = resolved
        lit = H.strip(tnode["args"][0])
        if lit.get("k") != "lit":
            ctx.anchor_lost("sanit", "format template is not a literal (unrecognised desugaring)")
            return
        tpl = decode_template(lit["v"]["v"])
        if tpl is None:
            ctx.anchor_lost("sanit", "cannot decode format template %s" % lit["v"]["v"][:60])
            return
        n_templates += 1
        if sum(1 for p_ in tpl if p_ is None) != len(arg_exprs):
            ctx.anchor_lost("sanit", "template placeholders (%d) and arguments (%d) do not line up" % (sum(1 for p_ in tpl if p_ is None), len(arg_exprs)))
            return
        k = 0
        for i, piece in enumerate(tpl):
            if piece is None:
                before = tpl[i - 1] if i > 0 and tpl[i - 1] is not None else ""
                after = tpl[i + 1] if i + 1 < len(tpl) and tpl[i + 1] is not None else ""
                if before.endswith('"') and after.startswith('"'):
                    quoted.append((tpl, arg_exprs[k], fcall["sp"]))
                k += 1
    # a value rendered with Debug formatting ({:?}) gets Rust's escapes (\t, \u{301}, \u{200b}); a VPL string literal keeps
    # its text verbatim, so the declaration then carries another value than the stored one
    dbg = [y for y in H.walk(h["body"]) if y.get("k") == "call" and isinstance(y.get("callee"), str) and "fmt::rt::Argument" in y["callee"] and y["callee"].endswith("::new_debug")]
    if dbg:
        ctx.violation("sanit", "to_vpl_declaration:debug-format", "to_vpl_declaration renders a parameter with Debug formatting (`{:?}`): control characters, combining marks and non-printable code points come out as Rust escapes (\\t, \\u{301}), which the VPL parser does not unescape — the injected declaration carries a different value than the stored one", site=dbg[0]["sp"])
    else:
        ctx.ok("sanit", "to_vpl_declaration:display-format", "values are interpolated with Display formatting")
    ctx.floor("sanit", "format templates in to_vpl_declaration", n_templates, 2)
    ctx.floor("sanit", "quoted interpolations", len(quoted), 1)
    # validation side
    vh = ctx.need_hir(CC + "validate_connector", rule="sanit")
    cg = ctx.cg()
    vreach = cg.reach(CC + "validate_connector", within=lambda f: f.startswith(CC))
    validates_values = False
    for f in vreach:
        hh = F.hir(f)
        if not hh:
            continue
        for y in H.walk(hh["body"]):
            if y.get("k") == "lit" and y["v"]["t"] in ("char", "str") and y["v"]["v"] in ('"', "\\", '\\"'):
                validates_values = True
    for tpl, arg, sp in quoted:
        txt = H.show(arg)
        escaped = any(y.get("k") in ("mcall", "call") and re.search(r"escape|quote|sanit|replace", (y.get("method") or (y["callee"] if isinstance(y.get("callee"), str) else ""))) for y in H.walk(arg))
        # or the argument is a local bound to an escaped value
        key = "to_vpl_declaration:%s" % txt[:20]
        if escaped:
            ctx.ok("sanit", key, "value passes an escaping call before interpolation", site=sp)
        elif validates_values:
            ctx.ok("sanit", key, "validate_connector restricts values containing quotes / backslashes", site=sp)
        else:
            ctx.violation("sanit", key, "parameter value `%s` is interpolated between double quotes (template %s) without escaping, and validate_connector does not restrict values: a stored value containing `\"` or `\\` renders a declaration that does not parse or declares a different value" % (
                txt[:30], "".join(p if p is not None else "{}" for p in tpl)), site=sp)
        ctx.sample({"template": "".join(p if p is not None else "{}" for p in tpl), "argument": txt[:40], "escaped": escaped, "validated": validates_values})
