"""C45 — resilient sink and breaker contract (R-ORDER on the async send bodies, R-FSM on the breaker state)."""
from vpr import hirq as H
from vpr.guards import comparison_guards

EXPLANATION = (
    "(a) R-ORDER on the MIR of <ResilientSink as Sink>::send / send_batch (async bodies, phase Built): no path from entry to "
    "return avoids both CircuitBreaker::record_success and ResilientSink::send_to_dlq — every event is delivered or "
    "dead-lettered; on the failure path record_failure precedes the DLQ write, and the rejected path (allow_request false) "
    "dead-letters without calling the inner sink. (b) R-FSM on InnerState.state: every write is extracted with its guards "
    "and compared with the contract — Closed -> Open only under consecutive_failures >= failure_threshold (exactly the "
    "configured number), Open -> HalfOpen only under last_failure.elapsed() >= reset_timeout, HalfOpen -> Closed on "
    "success and -> Open on failure; and the admission table of allow_request: an arm that admits while HalfOpen must "
    "change state or set a flag, otherwise every concurrent sender is admitted instead of exactly one probe."
    " Every transition into Open stamps last_failure_time on the same path (the reset timeout is measured from it)."
)
DECIDED = ["every send ends in delivery or a DLQ write", "transition table and guards of the breaker", "whether half-open admits a single probe", "re-opening after a failed probe restarts the reset timeout"]
NOT_DECIDED = ["DLQ file I/O errors (best effort by design)", "timing of concurrent senders"]

R = "varpulis_runtime::"
CB = R + "circuit_breaker::CircuitBreaker"
STATE = R + "circuit_breaker::State::"
INNER = R + "circuit_breaker::InnerState"
DLQ = R + "sink::ResilientSink::send_to_dlq"


def run_sink(ctx):
    F = ctx.facts()
    for m in ("send", "send_batch"):
        fns = F.find_fns(r"^<varpulis_runtime::sink::ResilientSink as varpulis_runtime::sink::Sink>::%s::\{closure#0\}$" % m)
        if not fns:
            ctx.anchor_lost("deliver-or-dlq", "ResilientSink::%s body not found" % m)
            continue
        b = ctx.body(fns[0])
        succ = b.call_blocks({CB + "::record_success"})
        dlq = b.call_blocks({DLQ})
        fail = b.call_blocks({CB + "::record_failure"})
        inner = [bb for bb, t in b.calls() if t["callee"].endswith("Sink::" + m) or (t["inst"] or "").endswith("::" + m) and "Sink" in t["callee"]]
        allow = b.call_blocks({CB + "::allow_request"})
        left = b.must_pass_through(set(succ) | set(dlq))
        if left or not succ or not dlq:
            ctx.violation("deliver-or-dlq", m, "ResilientSink::%s has a path to its return that neither records a successful delivery nor writes the event(s) to the dead-letter queue: the event is lost" % m, site=b.js["span"])
        else:
            ctx.ok("deliver-or-dlq", m, "%d success / %d DLQ sites" % (len(succ), len(dlq)))
        # failure path: record_failure before the DLQ write; rejected path: DLQ under allow_request == false
        for i, d in enumerate(dlq):
            gs = b.guards_of(d)
            rejected = any(g["kind"] == "call" and g["call"]["callee"] == CB + "::allow_request" and g["taken"] == "false" for g in gs) or \
                any("allow_request" in g.get("text", "") and ((g["taken"] == "true") == g["text"].startswith("Not(")) for g in gs)
            key = "%s:dlq#%d" % (m, i + 1)
            if rejected:
                ctx.ok("deliver-or-dlq", key, "rejected by the breaker -> dead-lettered")
            elif fail and b.blocks_dominate(fail, d):
                ctx.ok("deliver-or-dlq", key, "after record_failure")
            else:
                ctx.violation("deliver-or-dlq", key, "a DLQ write in %s is neither the breaker-rejected path nor preceded by record_failure: the breaker does not count this failure" % m, site=b.term(d)["sp"])
        if allow and inner and all(b.blocks_dominate(allow, x) for x in inner):
            ctx.ok("deliver-or-dlq", m + ":gate", "inner sink called only after allow_request")
        else:
            ctx.violation("deliver-or-dlq", m + ":gate", "the inner sink is called without consulting the breaker first", site=b.js["span"])


def run_fsm(ctx):
    F = ctx.facts()
    writers = F.field_accessors(INNER, "state", kinds=("w",))
    ctx.floor("fsm", "functions writing the breaker state", len(writers), 3)
    for fn in sorted(writers):
        b = ctx.need_body(fn, rule="fsm")
        name = fn.rsplit("::", 1)[1]
        for bb in sorted(b.live):
            for s in b.stmts(bb):
                p = s["d"]["p"]
                if not (p and isinstance(p[-1], dict) and p[-1].get("f") == "state" and p[-1].get("a") == INNER):
                    continue
                val = b.desc(s["o"][0]) if s.get("o") else ""
                to = val.split("State::")[1].split("{")[0] if "State::" in val else "?"
                nfs = [nf for nf, g in comparison_guards(b, bb)]
                gs = b.guards_of(bb)
                frm = None
                for g in gs:
                    if g["kind"] == "discr" and "state" in g["text"]:
                        frm = g["taken"]
                for nf in nfs:
                    if nf[0] == "==" and "state" in nf[1] + nf[2] and "State::" in nf[1] + nf[2]:
                        frm = (nf[1] + nf[2]).split("State::")[1].split("{")[0]
                key = "%s:->%s" % (name, to)
                if to == "Open":
                    # co-mutation: the reset timeout is measured from last_failure_time, so every transition INTO Open has to
                    # stamp it on the same path (a stale stamp from the first trip makes the next allow_request re-admit at once)
                    stamps = []
                    for b2 in sorted(b.live):
                        for s2 in b.stmts(b2):
                            p2 = s2["d"]["p"]
                            if p2 and isinstance(p2[-1], dict) and p2[-1].get("f") == "last_failure_time" and p2[-1].get("a") == INNER:
                                stamps.append(b2)
                    # stamped before (a stamp dominates the write) or after on every path (no return reachable without a stamp)
                    after_all = bool(stamps) and not any(r in b.reachable(bb, avoid_blocks=[x for x in stamps if x != bb]) for r in b.return_blocks() if r != bb) or bb in stamps
                    if any(b.dominates(x, bb) for x in stamps) or after_all:
                        ctx.ok("fsm", key + ":stamped@%s" % (frm if not isinstance(frm, list) else "arm%s" % frm[0]), "last_failure_time written on the same path", site=s["sp"])
                    else:
                        ctx.violation("fsm", key + ":stamped", "%s moves the breaker to Open on a path that does not set last_failure_time: allow_request measures the reset timeout from that stamp, so after a failed half-open probe the (long elapsed) stamp of the first trip lets the very next request through instead of rejecting until the timeout has passed again" % name, site=s["sp"])
                if name == "record_failure" and to == "Open":
                    thr = [nf for nf in nfs if "failure_threshold" in nf[1] + nf[2]]
                    if thr:
                        if thr[0][0] == ">=" and "consecutive_failures" in thr[0][1]:
                            ctx.ok("fsm", key + ":threshold", "%s %s %s" % thr[0], site=s["sp"])
                        else:
                            ctx.violation("fsm", key + ":threshold", "the breaker opens under `%s %s %s`; the contract is exactly the configured number of consecutive failures: consecutive_failures >= failure_threshold" % thr[0], site=s["sp"])
                    else:
                        ctx.ok("fsm", key + ":probe-failed", "HalfOpen -> Open on a failed probe", site=s["sp"])
                elif name == "allow_request" and to == "HalfOpen":
                    t = [nf for nf in nfs if "reset_timeout" in nf[1] + nf[2]]
                    if t and t[0][0] in (">=", ">") and "elapsed" in t[0][1]:
                        ctx.ok("fsm", key, "under %s %s %s" % t[0], site=s["sp"])
                    else:
                        ctx.violation("fsm", key, "Open -> HalfOpen is not guarded by last_failure.elapsed() >= reset_timeout (guards %s)" % nfs, site=s["sp"])
                elif name == "record_success" and to == "Closed":
                    ctx.ok("fsm", key, site=s["sp"])
                else:
                    ctx.violation("fsm", key, "%s writes breaker state %s, which is not in the contract table (Closed->Open in record_failure, Open->HalfOpen in allow_request, HalfOpen->Closed in record_success, HalfOpen->Open in record_failure)" % (name, to), site=s["sp"])
                ctx.sample({"fn": name, "to": to, "guards": ["%s %s %s" % nf for nf in nfs][:3]})
    # admission table of allow_request
    h = ctx.need_hir(CB + "::allow_request", rule="fsm")
    ms = H.matches_on(h["body"], lambda t: t.endswith("circuit_breaker::State"))
    if not ms:
        ctx.anchor_lost("fsm", "allow_request: no match over State")
        return
    for head, pat, arm in H.arm_rows(ms[0]):
        if not isinstance(head, str) or "State::" not in head:
            continue
        v = head.rsplit("::", 1)[1]
        body = H.strip(arm["body"])
        admits_plain = body.get("k") == "lit" and body["v"]["v"] == "true"
        assigns = [x for x in H.walk(arm["body"]) if x.get("k") == "assign"]
        if v == "HalfOpen":
            if admits_plain and not assigns:
                ctx.violation("fsm", "allow_request:HalfOpen-admits-without-transition", "while HalfOpen, allow_request admits every caller and changes nothing: all concurrent senders pass instead of exactly one probe until that probe completes", site=arm["sp"])
            else:
                ctx.ok("fsm", "allow_request:HalfOpen", H.show(body)[:60], site=arm["sp"])
        elif v == "Closed":
            if admits_plain:
                ctx.ok("fsm", "allow_request:Closed")
            else:
                ctx.violation("fsm", "allow_request:Closed", "a closed breaker must admit: `%s`" % H.show(body)[:60], site=arm["sp"])


def run(ctx):
    ctx.guard("deliver-or-dlq", lambda: run_sink(ctx))
    ctx.guard("fsm", lambda: run_fsm(ctx))
