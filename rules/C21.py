"""C21 — checkpoint storage recovers the newest complete checkpoint (R-ORDER on the atomic write, save/prune/id ordering, fallback shape)."""
from vpr.prov import Slicer

EXPLANATION = (
    "On MIR of persistence.rs: (a) FileStore::put writes the bytes to a path derived with `with_extension(\"tmp\")` and the "
    "final path is only the target of fs::rename, which every path to `Ok` passes after the write; no other function of "
    "the store writes files (fs::write / File::create) — so a crash never leaves a partially written file under a final "
    "name; (b) CheckpointManager::checkpoint: save_checkpoint dominates prune_checkpoints (never prune before the new "
    "checkpoint is durable) and the id increment is dominated by both succeeding; new() derives the next id from the "
    "stored latest id + 1; (c) fallback shape: recovery must survive an unreadable newest checkpoint — each store's "
    "load_latest_checkpoint has to try older ids (a loop / iterator over the listed ids) instead of returning the error "
    "of the newest one."
    " (d) prune keeps the newest: list_checkpoints sorts ascending and prune_checkpoints deletes the first len - keep ids of that list in every store."
)
DECIDED = ["atomic temp-file + rename write", "save before prune, id advanced only after both", "whether recovery falls back to an older readable checkpoint", "prune deletes the oldest checkpoints only"]
NOT_DECIDED = ["crash interleavings inside the file system", "fsync durability"]

P = "varpulis_runtime::persistence::"
FS_WRITERS = ("std::fs::write", "std::fs::File::create", "std::fs::OpenOptions::open", "std::fs::copy")


def impl_fn(F, store, method):
    rx = r"^<varpulis_runtime::persistence::%s as varpulis_runtime::persistence::StateStore>::%s$" % (store, method)
    fs = F.find_fns(rx)
    return fs[0] if fs else None


def run_put(ctx):
    F = ctx.facts()
    fn = impl_fn(F, "FileStore", "put")
    if not fn:
        ctx.anchor_lost("atomic-write", "FileStore::put not found")
        return
    b = ctx.body(fn)
    writes = [(bb, t) for bb, t in b.calls() if t["callee"] in FS_WRITERS or (t["inst"] or "") in FS_WRITERS]
    renames = [(bb, t) for bb, t in b.calls() if t["callee"] == "std::fs::rename"]
    ctx.floor("atomic-write", "file writes in FileStore::put", len(writes), 1)
    if not renames:
        ctx.violation("atomic-write", "rename", "FileStore::put never renames a temporary file into place: the final path is written directly and a crash leaves a partial checkpoint under its final name", site=b.js["span"])
        return
    for bb, t in writes:
        o = Slicer(b).origins([t["args"][0]])
        tmp = o.has_call("::with_extension") or any("tmp" in c for c in o.consts)
        if tmp:
            ctx.ok("atomic-write", "write-to-temp", site=t["sp"])
        else:
            ctx.violation("atomic-write", "write-to-temp", "FileStore::put writes the bytes to a path that is not derived with with_extension(\"tmp\") (origins %s): the final file is not replaced atomically" % o.summary()["calls"][:5], site=t["sp"])
    rb = [bb for bb, _ in renames]
    wb = [bb for bb, _ in writes]
    # every Ok-return passes write then rename
    left = b.must_pass_through(rb)
    oks = [r for r in left]
    # error returns legitimately skip the rename; a success return is one whose value is Ok: approximate by requiring that
    # the rename post-dominates the write on all non-`?` paths: paths from write to return avoiding rename must pass a from_residual
    residual = [bb for bb, t in b.calls() if t["callee"].endswith("FromResidual::from_residual")]
    bad = False
    for w in wb:
        r = b.reachable(w, avoid_blocks=set(rb) | set(residual))
        if any(x in r for x in b.return_blocks()):
            bad = True
    if bad:
        ctx.violation("atomic-write", "rename-after-write", "a successful path of FileStore::put writes the temporary file without renaming it into place", site=b.term(rb[0])["sp"])
    elif not all(b.blocks_dominate(wb, r) for r in rb):
        ctx.violation("atomic-write", "rename-after-write", "the rename can happen before the temporary file is written", site=b.term(rb[0])["sp"])
    else:
        ctx.ok("atomic-write", "rename-after-write", site=b.term(rb[0])["sp"])
    # the rename's source is the temp path and its target the key's path
    for bb, t in renames:
        so = Slicer(b).origins([t["args"][0]])
        to = Slicer(b).origins([t["args"][1]])
        if so.has_call("::with_extension") and not (to.has_call("::with_extension") and not to.has_call("key_to_path")):
            ctx.ok("atomic-write", "rename-direction", site=t["sp"])
        else:
            ctx.violation("atomic-write", "rename-direction", "fs::rename does not move the temporary file onto the final path", site=t["sp"])
    # no other writer in the FileStore impl
    for m in ("save_checkpoint", "prune_checkpoints", "delete", "flush"):
        f2 = impl_fn(F, "FileStore", m)
        if not f2:
            continue
        b2 = ctx.body(f2)
        direct = [t for _, t in b2.calls() if t["callee"] in FS_WRITERS]
        if direct:
            ctx.violation("atomic-write", "other-writer:" + m, "FileStore::%s writes files directly instead of going through put()" % m, site=direct[0]["sp"])
        else:
            ctx.ok("atomic-write", "other-writer:" + m, nontrivial=False)


def run_manager(ctx):
    b = ctx.need_body(P + "CheckpointManager::checkpoint", rule="save-prune-id")
    save = b.call_blocks(lambda t: t["callee"].endswith("StateStore::save_checkpoint"))
    prune = b.call_blocks(lambda t: t["callee"].endswith("StateStore::prune_checkpoints"))
    if not save or not prune:
        ctx.violation("save-prune-id", "shape", "CheckpointManager::checkpoint no longer saves (%d) and prunes (%d)" % (len(save), len(prune)))
        return
    if all(b.blocks_dominate(save, p) for p in prune):
        ctx.ok("save-prune-id", "save-before-prune", site=b.term(prune[0])["sp"])
    else:
        ctx.violation("save-prune-id", "save-before-prune", "old checkpoints can be pruned before the new one is saved: a crash in between leaves fewer (possibly zero) complete checkpoints", site=b.term(prune[0])["sp"])
    incs = []
    for bb in sorted(b.live):
        for s in b.stmts(bb):
            p = s["d"]["p"]
            if p and isinstance(p[-1], dict) and p[-1].get("f") == "next_checkpoint_id":
                incs.append((bb, s))
    if not incs:
        ctx.violation("save-prune-id", "id-increment", "next_checkpoint_id is never advanced: every checkpoint overwrites the same id")
    for bb, s in incs:
        # success edges of the `?` after save and prune dominate the increment
        if b.blocks_dominate(save, bb) and b.blocks_dominate(prune, bb):
            ctx.ok("save-prune-id", "id-increment", "after save and prune succeeded", site=s["sp"])
        else:
            ctx.violation("save-prune-id", "id-increment", "next_checkpoint_id is advanced on a path where the save or prune has not completed", site=s["sp"])
    nb = ctx.need_body(P + "CheckpointManager::new", rule="save-prune-id")
    if nb.call_blocks(lambda t: t["callee"].endswith("StateStore::load_latest_checkpoint")):
        ctx.ok("save-prune-id", "id-from-store", "new() derives the next id from the stored latest checkpoint")
    else:
        ctx.violation("save-prune-id", "id-from-store", "CheckpointManager::new does not consult the store for the latest id: ids restart after a restart")


def run_fallback(ctx):
    F = ctx.facts()
    n = 0
    for store in ("MemoryStore", "FileStore", "RocksDbStore"):
        fn = impl_fn(F, store, "load_latest_checkpoint")
        if not fn:
            continue
        n += 1
        loads = []
        for p in F.bodies_of(fn):
            b = ctx.body(p)
            for bb, t in b.calls():
                if t["callee"].endswith("::load_checkpoint"):
                    loads.append((p, b, bb, t))
        if not loads:
            ctx.violation("fallback", store, "%s::load_latest_checkpoint does not load any checkpoint" % store)
            continue
        in_loop = any(b.in_loop(bb) or "{closure" in p for p, b, bb, t in loads)
        if in_loop:
            ctx.ok("fallback", store, "candidates are tried in a loop")
        else:
            p, b, bb, t = loads[0]
            ctx.violation("fallback", store, "%s::load_latest_checkpoint loads only the newest listed id and returns its error: when the newest checkpoint is unreadable (truncated / corrupt) recovery fails although an older readable checkpoint exists" % store, site=t["sp"])
    ctx.floor("fallback", "stores with load_latest_checkpoint compiled in this configuration", n, 2)


def run_prune(ctx):
    """(d) prune keeps the NEWEST `keep` checkpoints: list_checkpoints sorts the ids ascending and prune_checkpoints deletes a
    prefix of that list of length len - keep (iter().take(n), not reversed / skipped)"""
    from vpr import hirq as H
    F = ctx.facts()
    n = 0
    for store in ("MemoryStore", "FileStore", "RocksDbStore"):
        fn = impl_fn(F, store, "prune_checkpoints")
        ls = impl_fn(F, store, "list_checkpoints")
        if not fn or not ls:
            continue  # RocksDbStore exists only with the `persistence` feature
        n += 1
        h = ctx.need_hir(fn, rule="prune-oldest")
        lh = ctx.need_hir(ls, rule="prune-oldest")
        sorts = [x["method"] for x in H.walk(lh["body"]) if x.get("k") == "mcall" and x["method"].startswith("sort")]
        revs = [x["method"] for x in H.walk(lh["body"]) if x.get("k") == "mcall" and x["method"] in ("reverse", "rev")]
        if sorts and all(m in ("sort", "sort_unstable") for m in sorts) and not revs:
            ctx.ok("prune-oldest", store + ":list-ascending", "ids sorted ascending")
        else:
            ctx.violation("prune-oldest", store + ":list-ascending", "%s::list_checkpoints does not return the ids in plain ascending order (sort calls %s, reversals %s): prune and recovery both rely on `last = newest`" % (store, sorts, revs), site=lh["span"])
        loops = [x for x in H.walk(h["body"]) if x.get("k") == "for"]
        if not loops:
            ctx.anchor_lost("prune-oldest", "%s::prune_checkpoints has no loop over the ids to delete" % store)
            continue
        it = loops[0]["iter"]
        # equivalent form: a slice prefix `&ids[..n]` (optionally .iter())
        e0 = H.strip(it)
        while e0 is not None and e0.get("k") in ("ref",) or (e0 is not None and e0.get("k") == "mcall" and e0["method"] in ("iter", "into_iter")):
            e0 = H.strip(e0["e"]) if e0.get("k") == "ref" else H.strip(e0["recv"])
        if e0 is not None and e0.get("k") == "index" and H.strip(e0["i"]).get("k") == "struct" and H.strip(e0["i"])["adt"].endswith("ops::range::RangeTo"):
            endx = H.strip(H.strip(e0["i"])["fields"][0]["e"])
            it = {"k": "mcall", "method": "take", "recv": {"k": "mcall", "method": "iter", "recv": e0["e"], "args": [], "sp": e0["sp"], "exp": ""}, "args": [endx], "sp": e0["sp"], "exp": ""}
        chain = []
        e = H.strip(it)
        while e is not None and e.get("k") == "mcall":
            chain.append(e)
            e = H.strip(e["recv"])
        methods = [c["method"] for c in reversed(chain)]
        bad = [m for m in methods if m not in ("iter", "into_iter", "take", "cloned", "copied")]
        takes = [c for c in chain if c["method"] == "take"]
        if bad or len(takes) != 1:
            ctx.violation("prune-oldest", store + ":prefix", "%s::prune_checkpoints walks the ascending id list with `%s`: it must delete the first len - keep ids (`.iter().take(n)`); reversing or skipping deletes newer checkpoints and keeps older ones, so recovery after a restart returns an old state" % (store, ".".join(methods)), site=loops[0]["sp"])
            continue
        # n = len.saturating_sub(keep)
        arg = H.strip(takes[0]["args"][0])
        init = arg
        nm = H.local_name(arg) if arg.get("k") == "path" else None
        if nm:
            ins = [s_ for s_ in H.lets(h["body"]) if s_["pat"]["k"] == "bind" and s_["pat"]["name"] == nm and s_.get("init") is not None]
            if len(ins) == 1:
                init = H.strip(ins[0]["init"])
        txt = H.show(init)
        if init.get("k") == "mcall" and init["method"] == "saturating_sub" and "len()" in H.show(init["recv"]) and any(z.get("k") == "path" and "local:keep#" in str(z.get("res", "")) for z in H.walk(init["args"][0])) and not any(z.get("k") == "bin" for z in H.walk(init["args"][0])):
            ctx.ok("prune-oldest", store + ":prefix", "deletes the first len - keep ids", site=loops[0]["sp"])
        else:
            ctx.violation("prune-oldest", store + ":prefix", "%s::prune_checkpoints deletes `%s` ids, not len - keep" % (store, txt[:60]), site=loops[0]["sp"])
    ctx.floor("prune-oldest", "stores with prune_checkpoints", n, 2)


def run(ctx):
    ctx.guard("atomic-write", lambda: run_put(ctx))
    ctx.guard("save-prune-id", lambda: run_manager(ctx))
    ctx.guard("fallback", lambda: run_fallback(ctx))
    ctx.guard("prune-oldest", lambda: run_prune(ctx))
