"""C24 — watermarks never regress; late data handled as configured (R-GUARD monotone writes, R-ORDER recompute, gate relations)."""
from vpr import hirq as H
from vpr.guards import comparison_guards
from rules import C16

EXPLANATION = (
    "On MIR of watermark.rs: (a) every write of SourceWatermark.watermark outside restore and the registration literal is "
    "edge-dominated by `new > current` or sits on the arm where the current watermark is None (monotone per source); "
    "(b) every function that writes a source watermark calls recompute_effective on all paths from the write to its "
    "return, and recompute_effective takes the minimum over the sources that have a watermark (a `<` comparison guards the "
    "replacement of the running minimum); (c) the late-data gate in process_inner declares an event late only under "
    "`timestamp < effective_watermark` and lets it through under `timestamp >= effective_watermark - allowed_lateness` "
    "(HIR normal forms); (d) entry-point agreement for the tracker and the gate is shared with C16."
)
DECIDED = ["per-source watermark monotonicity", "effective watermark recomputed after every source update and computed as a minimum", "relations of the late-data gate", "which entry points apply the gate (shared with C16)", "the late-data gate compares with the tracker's current effective watermark"]
NOT_DECIDED = ["values of watermarks", "re-registration of a source while running (register_source is only called while loading)"]

W = "varpulis_runtime::watermark::"
SW = W + "SourceWatermark"
TR = W + "PerSourceWatermarkTracker"


def run_monotone(ctx):
    F = ctx.facts()
    writers = F.field_accessors(SW, "watermark", kinds=("w",))
    ctx.floor("monotone", "functions writing SourceWatermark.watermark", len(writers), 2)
    for fn in sorted(writers):
        name = fn.rsplit("::", 1)[1]
        if name in ("restore",):
            ctx.ok("monotone", name, "restore installs the checkpointed value", nontrivial=False)
            continue
        b = ctx.need_body(fn, rule="monotone")
        k = 0
        wblocks = []
        for bb in sorted(b.live):
            for s in b.stmts(bb):
                p = s["d"]["p"]
                if not (p and isinstance(p[-1], dict) and p[-1].get("f") == "watermark" and p[-1].get("a") == SW):
                    continue
                k += 1
                wblocks.append(bb)
                key = "%s#%d" % (name, k)
                nfs = [nf for nf, g in comparison_guards(b, bb)]
                gs = b.guards_of(bb)
                gt = [nf for nf in nfs if nf[0] == ">" and ("wm" in nf[1] or "wm" in nf[2])]
                none_arm = any(g["kind"] == "discr" and "watermark" in g["text"] and g["taken"] in ([0],) for g in gs)
                if gt:
                    ctx.ok("monotone", key, "under %s > %s" % (gt[0][1], gt[0][2]), site=s["sp"])
                elif none_arm:
                    ctx.ok("monotone", key, "first watermark of the source (current is None)", site=s["sp"])
                else:
                    ctx.violation("monotone", key, "%s overwrites a source watermark without `new > current` (guards: %s): the watermark can move backwards" % (name, nfs[-3:]), site=s["sp"])
        # (b) recompute after write
        rec = b.call_blocks({TR + "::recompute_effective"})
        bad = False
        for wbb in wblocks:
            r = b.reachable(wbb, avoid_blocks=rec)
            if any(x in r for x in b.return_blocks()):
                bad = True
        if not wblocks:
            continue
        if bad or not rec:
            ctx.violation("recompute", name, "%s changes a source watermark but a path returns without recompute_effective: the effective watermark lags behind its sources" % name, site=b.js["span"])
        else:
            ctx.ok("recompute", name)
    # effective = min
    h = ctx.need_hir(TR + "::recompute_effective", rule="recompute")
    lt = [x for x in H.walk(h["body"]) if x.get("k") == "bin" and x["op"] in ("Lt", "Gt")]
    okmin = False
    for x in lt:
        l, r = H.show(x["l"]), H.show(x["r"])
        if (x["op"] == "Lt" and "source_wm" in l and "min" in r) or (x["op"] == "Gt" and "min" in l and "source_wm" in r):
            okmin = True
    if okmin:
        ctx.ok("recompute", "effective-is-min")
    else:
        ctx.violation("recompute", "effective-is-min", "recompute_effective does not replace the running minimum under `source_wm < current_min`: %s" % [H.show(x) for x in lt], site=h["span"])


def run_gate(ctx):
    F = ctx.facts()
    h = ctx.need_hir("varpulis_runtime::engine::Engine::process_inner", rule="gate")
    rels = []
    for x in H.walk(h["body"]):
        if x.get("k") == "bin" and x["op"] in ("Lt", "Le", "Gt", "Ge"):
            l, r, op = H.show(x["l"]), H.show(x["r"]), x["op"]
            if op in ("Gt", "Ge"):
                pass
            rels.append((op, l, r, x["sp"]))
    # the watermark local is found by role: `if let Some(W) = <init>` whose W is compared with the event's timestamp; its
    # initialiser must be the tracker's effective_watermark() (the minimum over the sources as it is NOW) — a cached copy
    # (an Engine field) can be stale: recompute_effective legitimately LOWERS the minimum when a slower source first reports
    wm_inits = {}
    for x in H.walk(h["body"]):
        if x.get("k") == "letcond" and "Option::Some" in H.pat_str(x["pat"]):
            for nm in H.pat_binds(x["pat"]):
                wm_inits[nm] = x["init"]
    cand = [t for t in rels if "timestamp" in t[1] + t[2] and "allowed_lateness" not in t[1] + t[2]]
    late = []
    for t in cand:
        other = t[2] if "timestamp" in t[1] else t[1]
        if other in wm_inits:
            late.append(t)
            init = wm_inits[other]
            from_tracker = any(y.get("k") == "mcall" and str(y.get("def", "")).endswith("PerSourceWatermarkTracker::effective_watermark") for y in H.walk(init))
            if from_tracker:
                ctx.ok("gate", "watermark-source", "the gate compares with tracker.effective_watermark()", site=t[3])
            else:
                ctx.violation("gate", "watermark-source", "the late-data gate compares the event's timestamp with `%s`, not with the tracker's effective_watermark(): a cached value does not follow the minimum when it moves down (a source with a larger out-of-order bound reporting for the first time), so events at or above the real watermark are dropped as late" % H.show(init)[:60], site=t[3])
    allow = [t for t in rels if "allowed_lateness" in t[1] + t[2]]
    if not late or not allow:
        ctx.anchor_lost("gate", "late-data gate comparisons not found in process_inner (late %d, allowed %d)" % (len(late), len(allow)))
        return
    op, l, r, sp = late[0]
    strict_late = (op == "Lt" and "timestamp" in l) or (op == "Gt" and "timestamp" in r)
    if strict_late:
        ctx.ok("gate", "late-iff-below-watermark", "%s %s %s" % (l, op, r), site=sp)
    else:
        ctx.violation("gate", "late-iff-below-watermark", "an event is treated as late under `%s %s %s`; it is late only if its timestamp is below the effective watermark" % (l, op, r), site=sp)
    op, l, r, sp = allow[0]
    ok = (op == "Ge" and "timestamp" in l and "effective_wm" in r and "-" in r) or (op == "Le" and "timestamp" in r and "effective_wm" in l and "-" in l)
    if ok:
        ctx.ok("gate", "within-allowed-lateness", "%s %s %s" % (l, op, r), site=sp)
    else:
        ctx.violation("gate", "within-allowed-lateness", "allowed lateness is tested as `%s %s %s`; an event is dropped only if it is below the watermark by more than the allowed lateness, i.e. it passes iff timestamp >= effective_wm - allowed_lateness" % (l, op, r), site=sp)
    ctx.sample({"late_test": "%s %s %s" % late[0][:3], "allowed_test": "%s %s %s" % allow[0][:3]})


def run_entries(ctx):
    """entry-point agreement restricted to the watermark kernels (same facts as C16)"""
    saved = dict(C16.KERNELS)
    try:
        C16.KERNELS.clear()
        C16.KERNELS.update({k: v for k, v in saved.items() if k in ("watermark-observe", "late-data-gate")})
        C16.run_reach(ctx)
    finally:
        C16.KERNELS.clear()
        C16.KERNELS.update(saved)


def run(ctx):
    ctx.guard("monotone", lambda: run_monotone(ctx))
    ctx.guard("gate", lambda: run_gate(ctx))
    ctx.guard("entry-reach", lambda: run_entries(ctx))
