"""C35 — replicated state is deterministic and snapshot-equivalent (R-DET, R-ARMS, storage contract shape)."""
from vpr import hirq as H
from vpr.prov import Slicer

EXPLANATION = (
    "cfg raft / persistent. (a) R-DET: the call-graph closure of raft::state_machine::apply_command (workspace functions, "
    "CHA for trait calls) calls no clock, RNG, uuid, environment, thread or I/O API — applying the same log gives the same "
    "state on every node; (b) R-ARMS: apply_command's match over ClusterCommand has an arm per variant and no wildcard; "
    "(c) the snapshot is the whole CoordinatorState: no field is serde-skipped and install_snapshot replaces the state by "
    "the deserialised value; build_snapshot serialises the state itself; (d) storage contract shape (openraft RaftLogReader/"
    "RaftStorage::get_log_state): when the log is empty after a purge, last_log_id must fall back to last_purged_log_id, "
    "so the value stored in LogState.last_log_id has to depend on the purged id in each store."
    " Serde attribute symmetry on CoordinatorState / ClusterCommand and every nested type (cfg raft)."
)
DECIDED = ["apply_command is deterministic (no nondeterministic effect reachable)", "every command variant is applied explicitly", "snapshot covers the whole replicated state",
           "get_log_state reports last_log_id >= last_purged_log_id by construction in both stores", "snapshot and log entry types round-trip field by field through serde"]
NOT_DECIDED = ["openraft's own algorithm", "HashMap iteration order inside apply_command arms (no arm iterates to produce order-dependent state: not decided)", "the rest of the storage conformance suite"]

SM = "varpulis_cluster::raft::state_machine::"
NONDET = ("::now", "Instant::", "SystemTime::", "chrono::offset", "uuid::", "rand::", "getrandom", "std::env::", "std::fs::", "tokio::fs", "std::net::",
          "tokio::net", "reqwest::", "std::thread::", "tokio::spawn", "tokio::task", "RandomState", "std::process::", "thread_rng", "fastrand")


def run_det(ctx, cfg):
    F = ctx.facts(cfg)
    cg = ctx.cg(cfg)
    root = SM + "apply_command"
    if F.mir(root) is None:
        ctx.anchor_lost("det", "apply_command not found in cfg %s" % cfg)
        return
    reach = cg.reach(root, within=lambda f: f.startswith("varpulis_") or f.startswith("<varpulis_"))
    ws = [f for f in reach if (f.startswith("varpulis_") or f.startswith("<varpulis_")) and F.mir(f) is not None]
    ctx.floor("det", "workspace functions reachable from apply_command", len(ws), 1)
    bad = []
    for f in ws:
        for c in F.calls_from(f):
            tgt = (c["inst"] or c["callee"])
            if any(p in tgt for p in NONDET) or any(p in c["callee"] for p in NONDET):
                bad.append((f, tgt, c["sp"]))
    if bad:
        for f, tgt, sp in bad[:6]:
            ctx.violation("det", "%s->%s" % (f.rsplit("::", 1)[-1], tgt), "apply_command reaches %s (via %s): replicas applying the same log diverge" % (tgt, " -> ".join(cg.path_to(f)[-3:])), site=sp)
    else:
        ctx.ok("det", "closure[%s]" % cfg, "%d workspace functions, no nondeterministic API" % len(ws))
    ctx.sample({"cfg": cfg, "apply_command_closure": sorted(x.rsplit("::", 2)[-2] + "::" + x.rsplit("::", 1)[-1] for x in ws)[:10], "n": len(ws)})


def run_arms(ctx, cfg):
    F = ctx.facts(cfg)
    h = ctx.need_hir(SM + "apply_command", cfg, rule="arms")
    cmd = "varpulis_cluster::raft::ClusterCommand"
    variants = F.variants(cmd)
    if not variants:
        ctx.anchor_lost("arms", "enum ClusterCommand not found")
        return
    ms = H.matches_on(h["body"], lambda t: t.endswith("raft::ClusterCommand"))
    if not ms:
        ctx.anchor_lost("arms", "no match over ClusterCommand in apply_command")
        return
    seen = set()
    for head, pat, arm in H.arm_rows(ms[0]):
        if head == "*":
            ctx.violation("arms", "wildcard", "apply_command has a wildcard arm over ClusterCommand: a new command kind would be silently ignored by some replicas' code version", site=arm["sp"])
        elif isinstance(head, str):
            seen.add(head.rsplit("::", 1)[1])
    for v in variants:
        if v in seen:
            ctx.ok("arms", v)
        else:
            ctx.violation("arms", v, "ClusterCommand::%s has no explicit arm in apply_command" % v, site=ms[0]["sp"])


def run_snapshot(ctx, cfg, store_rx, label):
    F = ctx.facts(cfg)
    st = F.struct(SM + "CoordinatorState")
    if not st:
        ctx.anchor_lost("snapshot", "CoordinatorState not found")
        return
    for f in st["variants"][0]["fields"]:
        a = " ".join(f["attrs"])
        if "skip" in a:
            ctx.violation("snapshot", "field:" + f["n"], "CoordinatorState.%s is excluded from serialisation (%s): a snapshot-installed replica differs from a log-replayed one" % (f["n"], a))
        else:
            ctx.ok("snapshot", "field:" + f["n"])
    # install_snapshot replaces the whole state with the deserialised value
    ins = [p for p in F.find_fns(store_rx + r".*::install_snapshot::\{closure#0\}$")]
    if not ins:
        ctx.anchor_lost("snapshot", "install_snapshot of %s not found" % label)
        return
    b = ctx.body(ins[0], cfg)
    deser = [bb for bb, t in b.calls() if "serde_json" in t["callee"] and ("from_slice" in t["callee"] or "from_reader" in t["callee"] or "from_str" in t["callee"])]
    # whole-state assignment: a store through a guard/deref without field projection of CoordinatorState type
    whole = []
    for bb in sorted(b.live):
        for s in b.stmts(bb):
            d = s["d"]
            if d["p"] and d["p"][-1] == "*" and b.local_ty(d["l"]).find("CoordinatorState") >= 0 and s["k"] == "use":
                whole.append((bb, s))
            if d["p"] and isinstance(d["p"][-1], dict) and d["p"][-1].get("f") in ("state", "state_machine") and s["k"] == "use":
                whole.append((bb, s))
    if not deser:
        ctx.violation("snapshot", label + ":deserialise", "install_snapshot does not deserialise the snapshot bytes")
    elif not whole:
        ctx.violation("snapshot", label + ":replace", "install_snapshot does not replace the whole CoordinatorState (no whole-value assignment found): fields keep pre-snapshot contents")
    else:
        ok = False
        for bb, s in whole:
            o = Slicer(b).origins([s["o"][0]])
            if any("serde_json" in c for c in o.call_names()):
                ok = True
        if ok:
            ctx.ok("snapshot", label + ":replace", site=whole[0][1]["sp"])
        else:
            ctx.violation("snapshot", label + ":replace", "the state assigned in install_snapshot does not derive from the deserialised snapshot", site=whole[0][1]["sp"])


def run_log_state(ctx, cfg, store_rx, label):
    F = ctx.facts(cfg)
    fns = F.find_fns(store_rx + r".*::get_log_state::\{closure#0\}$")
    if not fns:
        ctx.anchor_lost("log-state", "get_log_state of %s not found (cfg %s)" % (label, cfg))
        return
    b = ctx.body(fns[0], cfg)
    aggs = [(bb, s) for bb in sorted(b.live) for s in b.stmts(bb) if s["k"] == "agg" and s.get("agg", "").endswith("LogState")]
    if len(aggs) != 1:
        ctx.anchor_lost("log-state", "%s::get_log_state: expected one LogState literal, found %d" % (label, len(aggs)))
        return
    bb, s = aggs[0]
    fields = dict(zip(s["fields"], s["o"]))
    if "last_log_id" not in fields or "last_purged_log_id" not in fields:
        ctx.anchor_lost("log-state", "LogState fields changed: %s" % list(fields))
        return
    o = Slicer(b).origins([fields["last_log_id"]])
    po = Slicer(b).origins([fields["last_purged_log_id"]])
    purged_sources = {f for f in po.fields if "purged" in f[1]} | {c for c in po.call_names() if "purged" in c}
    if not purged_sources:
        ctx.anchor_lost("log-state", "%s: cannot identify where last_purged_log_id comes from" % label)
        return
    dep = ({f for f in o.fields if "purged" in f[1]} | {c for c in o.call_names() if "purged" in c}) & purged_sources
    key = "%s:last_log_id" % label
    if dep:
        ctx.ok("log-state", key, "last_log_id depends on %s" % sorted(map(str, dep)), site=s["sp"])
    else:
        ctx.violation("log-state", key, "%s::get_log_state: last_log_id is computed from the log entries only; after purge_logs_upto empties the log it is None while last_purged_log_id is Some, which violates the storage contract (last_log_id must fall back to the purged id) and makes openraft re-request purged entries" % label, site=s["sp"])
    ctx.sample({"store": label, "last_log_id_from": o.summary()["calls"][:6], "purged_from": sorted(map(str, purged_sources))})


def run(ctx):
    ctx.guard("det", lambda: run_det(ctx, "raft"))
    ctx.guard("arms", lambda: run_arms(ctx, "raft"))
    ctx.guard("snapshot", lambda: run_snapshot(ctx, "raft", r"raft::store::MemStore", "MemStore"))
    ctx.guard("log-state", lambda: run_log_state(ctx, "raft", r"raft::store::MemStore", "MemStore"))
    ctx.guard("log-state", lambda: run_log_state(ctx, "persistent", r"raft::persistent_store::RocksStore", "RocksStore"))
    ctx.guard("snapshot", lambda: run_snapshot(ctx, "persistent", r"raft::persistent_store::RocksStore", "RocksStore"))
    # what a snapshot / log entry writes must be readable back, field by field, through every nested type
    from vpr import serdeattr
    ctx.guard("serde", lambda: serdeattr.check(ctx, "serde", [SM + "CoordinatorState", "varpulis_cluster::raft::ClusterCommand"], 40, cfg="raft"))
