"""C23 — hot reload keeps unchanged streams working and applies changed ones (route rebuild coverage, change detection inputs)."""
from vpr import hirq as H
from vpr.prov import Slicer

EXPLANATION = (
    "(a) route-builder agreement: Engine::reload replaces the routing table. Either it installs the table of the freshly "
    "loaded program whole (a write of Engine.router whose value derives from the engine built with load), or, if it "
    "rebuilds routes itself (calls EventRouter::add_route after clear), its RuntimeSource arm table must register every "
    "origin the loader registers — a non-empty arm per source variant, and the sequence-step event types — because a "
    "stream whose route is missing receives no events after the reload for any input; (b) the preserve-or-reset decision "
    "must depend on the operations' contents: the provenance of `ops_changed` may not consist of Vec::len alone (a changed "
    "threshold or window keeps the old operator)."
)
DECIDED = ["reload re-registers every route origin the loader registers", "whether change detection looks at operation contents"]
NOT_DECIDED = ["state carried over for preserved streams", "behaviour of changed streams after the reload"]

E = "varpulis_runtime::engine::Engine"
ROUTER = "varpulis_runtime::engine::router::EventRouter"


def run_routes(ctx):
    F = ctx.facts()
    fn = E + "::reload"
    b = ctx.need_body(fn, rule="routes")
    adds = []
    for p in F.bodies_of(fn):
        pb = ctx.body(p)
        adds += [(p, t) for bb, t in pb.calls() if (t["inst"] or t["callee"]) == ROUTER + "::add_route"]
    clears = b.call_blocks({ROUTER + "::clear"})
    whole = []
    for bb in sorted(b.live):
        for s in b.stmts(bb):
            pr = s["d"]["p"]
            if pr and isinstance(pr[-1], dict) and pr[-1].get("f") == "router" and pr[-1].get("a") == E and s["k"] == "use":
                whole.append((bb, s))
    if whole and not adds:
        o = Slicer(b).origins([whole[0][1]["o"][0]])
        loaded = [l for l in o.locals if "Engine" in b.local_ty(l) and any(c[0].endswith("Engine::load") for c in Slicer(b).origins([l]).calls)]
        from_loaded = o.has_call("::new_internal") or bool(loaded) or any(f == (E, "router") for f in o.fields)
        if from_loaded:
            ctx.ok("routes", "reload:whole-table", "router replaced by the freshly loaded program's table", site=whole[0][1]["sp"])
        else:
            ctx.violation("routes", "reload:whole-table", "reload assigns a routing table that does not come from loading the new program", site=whole[0][1]["sp"])
        return
    if not adds and not whole:
        if clears:
            ctx.violation("routes", "reload:cleared", "reload clears the routing table and never rebuilds it", site=b.term(clears[0])["sp"])
        else:
            # co-mutation: reload adds / removes / replaces entries of Engine.streams; the routing table names streams,
            # so it has to change with them
            from vpr.facts import root_fn
            muts = [r for r in F.fieldacc if r["adt"] == E and r["field"] == "streams" and r["k"] in ("w", "m", "wt", "mt") and root_fn(r["f"]) == fn]
            if muts:
                ctx.violation("routes", "reload:untouched", "reload changes the set of streams (Engine.streams is mutated) but leaves the routing table as it was: added streams receive no events, removed ones are still routed to", site=muts[0]["sp"])
            else:
                ctx.ok("routes", "reload:untouched", "neither the streams nor the routing table are modified")
        return
    # hand-made rebuild: compare with the loader's origins
    h = ctx.need_hir(fn, rule="routes")
    src = "varpulis_runtime::engine::types::RuntimeSource"
    ms = H.matches_on(h["body"], lambda t: t.endswith("types::RuntimeSource"))
    if not ms:
        ctx.anchor_lost("routes", "reload rebuilds routes without a match over RuntimeSource (unrecognised shape)")
        return
    for head, pat, arm in H.arm_rows(ms[0]):
        if not isinstance(head, str):
            continue
        v = head.rsplit("::", 1)[-1]
        body = H.strip(arm["body"])
        empty = body.get("k") == "block" and not body["stmts"] and body["tail"] is None
        if empty or head == "*":
            ctx.violation("routes", "reload:source:" + v, "reload rebuilds the routing table by hand and registers nothing for RuntimeSource::%s, which the loader routes: such streams stop receiving events after any reload" % v, site=arm["sp"])
        else:
            ctx.ok("routes", "reload:source:" + v)
    # sequence step event types: the loader registers them from the stream's sequence declaration
    loader_seq = [c for c in F.calls_to(ROUTER + "::add_route") if "register_stream" in c["f"] or "load_program" in c["f"]]
    reg = ctx.body(E + "::register_stream")
    n_loader = len([1 for _, t in reg.calls() if (t["inst"] or t["callee"]) == ROUTER + "::add_route"]) if reg else 0
    if n_loader > len(adds):
        ctx.violation("routes", "reload:sequence-types", "the loader registers routes at %d sites (stream source, join sources, sequence step types), reload's rebuild at %d: some origins are never re-registered" % (n_loader, len(adds)), site=adds[0][1]["sp"])
    else:
        ctx.ok("routes", "reload:sequence-types")


def run_change_detection(ctx):
    """the preserve-or-reset decision = the guards under which reload records a stream in ReloadReport.state_preserved; the
    guard that looks at the streams' `operations` must look at more than their length (found by role, not by local name)"""
    fn = E + "::reload"
    b = ctx.need_body(fn, rule="change-detection")
    pushes = [(bb, t) for bb, t in b.calls() if t["callee"].endswith("::push") and t["args"] and b.desc(t["args"][0]).endswith("state_preserved")]
    if not pushes:
        ctx.anchor_lost("change-detection", "reload never records a stream in ReloadReport.state_preserved (unrecognised shape)")
        return
    bb, t = pushes[0]
    ops_guards = []
    wide_calls = set()
    for g in b.guards_of(bb):
        discr = b.term(g["sw"])["discr"]
        wide = Slicer(b).origins([discr], through_calls="all")
        if not any(f[1] == "operations" for f in wide.fields):
            continue
        narrow = Slicer(b).origins([discr], through_calls="none")
        ops_guards.append((g, {c for c in narrow.call_names()}))
        wide_calls |= set(wide.call_names())
    if not ops_guards:
        ctx.violation("change-detection", "ops_changed", "reload preserves a stream's state without looking at its operations at all", site=t["sp"])
        return
    calls = set().union(*[c for _, c in ops_guards])
    if not any(c.endswith(("::len", "::eq", "::ne")) for c in wide_calls | calls):
        ctx.violation("change-detection", "ops_changed:no-length-comparison", "reload's test of the old against the new operations (%s) contains neither a length comparison nor a whole-collection equality: a pairwise walk stops at the shorter list, so a stream that gained or lost trailing steps is reported as state_preserved and keeps running the old pipeline" % sorted(x.rsplit("::", 1)[-1] for x in (wide_calls | calls))[:6], site=b.term(ops_guards[0][0]["sw"]).get("sp") or b.js["span"])
    else:
        ctx.ok("change-detection", "ops_changed:length-compared")
    only_len = calls and all(c.endswith("::len") for c in calls)
    if only_len:
        ctx.violation("change-detection", "ops_changed", "reload decides whether a stream's operations changed from `operations.len()` alone: an edit that keeps the number of operations (changed threshold, window size, filter) is reported as state_preserved and the old operators keep running", site=b.term(ops_guards[0][0]["sw"])["sp"] if "sp" in b.term(ops_guards[0][0]["sw"]) else b.js["span"])
    else:
        ctx.ok("change-detection", "ops_changed", "depends on %s" % sorted(calls)[:4])


def run(ctx):
    ctx.guard("routes", lambda: run_routes(ctx))
    ctx.guard("change-detection", lambda: run_change_detection(ctx))
