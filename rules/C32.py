"""C32 — coordinator bookkeeping under interleavings (commit re-validation, placement/worker pairing)."""
from vpr.facts import root_fn
from vpr.prov import Slicer

EXPLANATION = (
    "On MIR of coordinator.rs. Plans are computed under one lock and committed under a later one, so between the two any "
    "other operation may have run. (a) commit re-validation: every commit_* function that inserts a Running placement must do "
    "so under a successful lookup of the target worker in the current worker map (a deregistered worker must not receive a "
    "placement), and commit_migrate_pipeline must compare the placement it replaces with the one captured in its plan "
    "(plan.deployment: epoch / worker) before overwriting it; (b) pairing (R-COMUT): every push onto / removal from "
    "WorkerNode.assigned_pipelines is accompanied, on the same path, by the matching update of capacity.pipelines_running, "
    "and both sit in the function that also writes the placement (commit_deploy_group, commit_migrate_pipeline, "
    "commit_teardown_group, deploy_group, migrate_pipeline, teardown)."
    " (c) a migration target is chosen among workers that exclude the source (`w.id != source` in the candidate filter of every placement site that feeds migrate_pipeline)."
)
DECIDED = ["placements are only written for workers that are still registered at commit time", "a migration commit re-validates the placement it replaces", "assigned_pipelines and pipelines_running change together", "migration targets exclude the source worker"]
NOT_DECIDED = ["the interleavings themselves", "HTTP vs NATS execution variants"]

C = "varpulis_cluster::"
CO = C + "coordinator::Coordinator::"
WN = C + "worker::WorkerNode"
CAP = C + "worker::WorkerCapacity"


def is_running_deployment(b, operand):
    """does the operand (a PipelineDeployment value) carry status Running?"""
    work = [operand]
    seen = 0
    while work and seen < 8:
        seen += 1
        op = work.pop()
        pl = op.get("c") or op.get("m")
        if pl is None:
            continue
        for d in b.defs.get(pl["l"], ()):
            if d[0] != "stmt":
                continue
            if d[3]["k"] == "agg" and d[3].get("agg", "").endswith("PipelineDeployment"):
                ops = dict(zip(d[3]["fields"], d[3]["o"]))
                return "Running" in b.desc(ops.get("status", {}))
            if d[3]["k"] == "use":
                work.extend(d[3]["o"])
    return False


def run_revalidate(ctx):
    F = ctx.facts()
    n = 0
    for fn in (CO + "commit_deploy_group", CO + "commit_migrate_pipeline"):
        b = ctx.need_body(fn, rule="revalidate")
        name = fn.rsplit("::", 1)[1]
        k = 0
        for bb, t in b.calls():
            if not (t["callee"].endswith("::insert") and "placements" in b.desc(t["args"][0])):
                continue
            if len(t["args"]) < 3 or not is_running_deployment(b, t["args"][2]):
                continue
            n += 1
            k += 1
            gs = b.guards_of(bb)
            under_worker = any(g["kind"] == "discr" and "workers" in g["text"] and ("get_mut(" in g["text"] or "get(" in g["text"]) and g["taken"] in ([1],) for g in gs)
            key = "%s:placement#%d" % (name, k)
            if under_worker:
                ctx.ok("revalidate", key, site=t["sp"])
            else:
                ctx.violation("revalidate", key, "%s writes a Running placement without a successful lookup of its worker in the current worker map: if the worker was deregistered (or failed over) between plan and commit, the replica is recorded on a worker that is not registered, and its assigned_pipelines / pipelines_running never see it" % name, site=t["sp"])
    ctx.floor("revalidate", "Running placement writes in commit functions", n, 2)
    # migration commit compares with the captured deployment
    fn = CO + "commit_migrate_pipeline"
    reads = {r["field"] for r in F.fieldacc if root_fn(r["f"]) == fn and r["adt"] == C + "coordinator::MigratePipelinePlan" and r["k"] in ("r", "rt")}
    if "deployment" in reads:
        ctx.ok("revalidate", "commit_migrate_pipeline:stale-plan", "reads plan.deployment")
    else:
        b = ctx.body(fn)
        ctx.violation("revalidate", "commit_migrate_pipeline:stale-plan", "commit_migrate_pipeline never looks at plan.deployment (the placement captured when the plan was made): a migration planned before a concurrent failover / second migration overwrites the newer placement and decrements the wrong source worker", site=b.js["span"])


def run_pairing(ctx):
    F = ctx.facts()
    # functions changing either side of the pair (a function that only changes the counter must be examined too)
    users = set(F.field_accessors(WN, "assigned_pipelines", kinds=("m", "w"))) | set(F.field_accessors(CAP, "pipelines_running", kinds=("m", "w")))
    ctx.floor("pairing", "functions mutating WorkerNode.assigned_pipelines", len(users), 4)
    for fn in sorted(users):
        name = fn.rsplit("::", 1)[1]
        if name in ("new", "sync_from_raft", "register_worker"):
            ctx.ok("pairing", name, "constructor / replicated-state sync", nontrivial=False)
            continue
        for p in F.bodies_of(fn):
            b = ctx.body(p)
            if b is None:
                continue
            ap = []
            for bb, t in b.calls():
                if t["args"] and b.desc(t["args"][0]).endswith(".assigned_pipelines") and t["callee"].rsplit("::", 1)[1] in ("push", "retain", "remove", "clear", "insert", "extend"):
                    ap.append((bb, t))
            pr = []
            for bb in sorted(b.live):
                for s in b.stmts(bb):
                    pp = s["d"]["p"]
                    if pp and isinstance(pp[-1], dict) and pp[-1].get("f") == "pipelines_running" and pp[-1].get("a") == CAP:
                        pr.append((bb, s))
                t = b.term(bb)
                if t["k"] == "call":
                    pp = t["dest"]["p"]
                    if pp and isinstance(pp[-1], dict) and pp[-1].get("f") == "pipelines_running" and pp[-1].get("a") == CAP:
                        pr.append((bb, t))
            for i, (bb, t) in enumerate(ap):
                key = "%s:%s#%d" % (name, t["callee"].rsplit("::", 1)[1], i + 1)
                mate = [x for x, _ in pr if b.dominates(bb, x) or b.dominates(x, bb)]
                # same guarded region: the mate must not be reachable without passing this mutation or vice versa
                if mate:
                    ctx.ok("pairing", key, site=t["sp"])
                else:
                    ctx.violation("pairing", key, "%s changes a worker's assigned_pipelines (%s) without updating capacity.pipelines_running on the same path: the running count no longer matches the placements on that worker" % (name, t["callee"].rsplit("::", 1)[1]), site=t["sp"])
            for i, (bb, s) in enumerate(pr):
                if name == "heartbeat":
                    continue
                mate = [x for x, _ in ap if b.dominates(bb, x) or b.dominates(x, bb)]
                key = "%s:pipelines_running#%d" % (name, i + 1)
                if mate:
                    ctx.ok("pairing", key)
                else:
                    ctx.violation("pairing", key, "%s changes capacity.pipelines_running without the matching change of assigned_pipelines on the same path" % name, site=s.get("sp"))


def run_migration_target(ctx):
    """(c) a migration moves a pipeline to ANOTHER worker: wherever a placement target is computed and handed to
    migrate_pipeline (failover, drain), the candidate filter must exclude the source worker (`w.id != source`); with source ==
    target, migrate_pipeline pushes the pipeline onto the worker and its own source clean-up then removes it again — the
    placement says Running on a worker whose assigned_pipelines no longer lists it."""
    from vpr.prov import Slicer
    F = ctx.facts()
    PLACE = "varpulis_cluster::PlacementStrategy::place"
    n = 0
    for c in F.calls:
        if c["callee"] != PLACE:
            continue
        b = ctx.body(c["f"])
        if not any("Coordinator::migrate_pipeline" in (t["inst"] or t["callee"]) for _, t in b.calls()):
            continue  # a deployment, not a migration: there is no source worker
        n += 1
        t = b.term(c["bb"])
        fn = c["f"].split("::{closure")[0].rsplit("::", 1)[1]
        o = Slicer(b).origins([t["args"][2] if len(t["args"]) > 2 else t["args"][-1]])
        excl = False
        for cl in o.closures:
            cb = ctx.body(cl)
            if cb is None:
                continue
            for _, tt in cb.calls():
                # `w.id != source` or `!(w.id == source)`: an identity comparison of the candidate with the source
                if (tt["inst"] or tt["callee"]).endswith(("PartialEq::ne", "::ne", "PartialEq::eq", "::eq")) and any(".id" in cb.desc(a) or cb.desc(a).endswith("id") for a in tt["args"]):
                    excl = True
        key = "migration-target:%s" % fn
        if excl:
            ctx.ok("pairing", key, "candidates exclude the source worker", site=t["sp"])
        else:
            ctx.violation("pairing", key, "%s picks a migration target among workers that still include the source worker (no `w.id != source` in the candidate filter): if the source is available again (a late heartbeat between sweep and failover) the pipeline is 'migrated' onto itself and the source clean-up removes it from assigned_pipelines while the placement stays Running" % fn, site=t["sp"])
    ctx.floor("pairing", "placement sites that feed migrate_pipeline", n, 2)


def run(ctx):
    ctx.guard("revalidate", lambda: run_revalidate(ctx))
    ctx.guard("pairing", lambda: run_pairing(ctx))
    ctx.guard("pairing", lambda: run_migration_target(ctx))
