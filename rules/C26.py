"""C26 — contexts do not change the output (R-LOSSY on the cross-context data path)."""
from vpr.facts import root_fn
from vpr.prov import forward_uses

EXPLANATION = (
    "R-LOSSY on MIR: every non-blocking send (`try_send`) of an Event / ContextMessage on the context data path — "
    "ContextRuntime::drain_and_route_output (cross-context forwarding and the orchestrator output), "
    "EventTypeRouter::dispatch (ingress), Engine::send_output / send_output_shared (a context's engine output) — returns "
    "Result<(), TrySendError<T>> whose Err carries the message back. The result must be consumed so that the message is not "
    "lost: propagated to the caller (the Err payload moved into the returned error) or re-queued. A result that is dropped "
    "(`let _ =`) or only formatted into a log line loses the event whenever the bounded channel is full, i.e. for every "
    "channel capacity under a schedule in which the consumer lags — exactly the schedules the property quantifies over."
)
DECIDED = ["which sends on the context data path can silently lose an event when a channel is full"]
NOT_DECIDED = ["ordering of deliveries under thread schedules", "equality of outputs with the single-context program"]

R = "varpulis_runtime::"
SCOPE = (R + "context::ContextRuntime::drain_and_route_output", R + "context::EventTypeRouter::dispatch", R + "context::EventTypeRouter::dispatch_batch",
         R + "engine::Engine::send_output", R + "engine::Engine::send_output_shared")
FMT = ("core::fmt::rt::Argument", "core::fmt::Arguments", "tracing", "alloc::fmt::format", "core::fmt::Display", "ToString")


def classify(b, t):
    sinks = forward_uses(b, t["dest"]["l"])
    if not sinks:
        return "dropped"
    if any(s[0] == "return" for s in sinks):
        return "propagated"
    calls = [s for s in sinks if s[0] == "call"]
    nonfmt = [s for s in calls if not any(f in s[1] for f in FMT) and not s[1].endswith(("::fmt", "::to_string", "Debug::fmt"))]
    moved = [s for s in sinks if s[0] == "field_write"]
    if nonfmt or moved:
        # the payload goes somewhere else than a formatter (e.g. pushed onto a retry queue / into an error value)
        return "consumed"
    if any(s[0] == "discr" for s in sinks):
        return "logged-only"
    return "dropped"


def run(ctx):
    F = ctx.facts()
    n = 0
    counts = {}
    for fn in SCOPE:
        found = False
        for p in F.bodies_of(fn):
            b = ctx.body(p)
            if b is None:
                continue
            for bb, t in b.calls():
                if not t["callee"].endswith("Sender::<T>::try_send"):
                    continue
                found = True
                n += 1
                name = fn.rsplit("::", 1)[1]
                counts[name] = counts.get(name, 0) + 1
                key = "%s:try_send#%d" % (name, counts[name])
                c = classify(b, t)
                what = b.desc(t["args"][1])[:50] if len(t["args"]) > 1 else "?"
                if c in ("propagated", "consumed"):
                    ctx.ok("lossy", key, c, site=t["sp"])
                elif c == "logged-only":
                    ctx.violation("lossy", key, "%s: the Result of try_send(%s) is only matched to log the error; the rejected message is dropped when the channel is full" % (name, what), site=t["sp"])
                else:
                    ctx.violation("lossy", key, "%s: the Result of try_send(%s) is discarded: when the bounded channel is full the event is silently lost" % (name, what), site=t["sp"])
                ctx.sample({"fn": name, "send": what, "result": c, "site": t["sp"]})
        if not found and F.mir(fn) is None:
            ctx.anchor_lost("lossy", "%s not found" % fn)
    ctx.floor("lossy", "try_send sites on the context data path", n, 8)
