"""C34 — routing to pipelines and replicas (first-match shape, pattern test order, sibling agreement, fixed-key hash, atomic RMW)."""
from vpr import hirq as H
from vpr.facts import root_fn

EXPLANATION = (
    "(1) HIR of routing::find_target_pipeline: the function returns from inside the loop over routes at the first pattern "
    "that matches (a `return Some(route.to_pipeline)` under event_type_matches(..) inside the nested for-loops; no later "
    "route can overwrite the choice) and falls back to pipelines.first(); (2) event_type_matches tests `*`, then the "
    "trailing-`*` prefix (strip_suffix + starts_with), then equality, in that order; (3) R-REACH sibling agreement: single "
    "injection (resolve_inject_target) and batch injection (inject_batch) both resolve through find_target_pipeline and "
    "ReplicaGroup::select_replica — no second implementation of either choice; (4) R-DET in select_replica: the key hash "
    "uses a fixed-key hasher (DefaultHasher::new / no RandomState / no per-process seed), the hashed value derives from the "
    "configured field of the event, and the round-robin index is a single atomic fetch_add modulo the replica count."
    " Per-event key: the fields map handed to select_replica inside the batch loop is created inside that loop."
)
DECIDED = ["first matching route wins, default is the first pipeline", "pattern semantics order", "single and batch injection share target and replica selection", "replica selection is deterministic / sticky by key and fair by a single atomic counter", "a batched event is routed by its own fields only"]
NOT_DECIDED = ["equality of the JSON renderings of a key on the two paths (both call select_replica with the event's fields map)"]

C = "varpulis_cluster::"
FIND = C + "routing::find_target_pipeline"
MATCH = C + "routing::event_type_matches"
SELECT = C + "pipeline_group::ReplicaGroup::select_replica"


def run_first_match(ctx):
    h = ctx.need_hir(FIND, rule="first-match")
    fors = [x for x in H.walk(h["body"]) if x.get("k") == "for"]
    rets = []
    for f in fors:
        for x in H.walk(f["body"]):
            if x.get("k") == "ret":
                rets.append((f, x))
    if not fors:
        ctx.anchor_lost("first-match", "find_target_pipeline has no loop over routes (unrecognised shape)")
        return
    good = False
    for f, r in rets:
        # the return is inside an `if event_type_matches(..)`
        for x in H.walk(f["body"]):
            if x.get("k") == "if" and any(d == MATCH for d, _ in H.calls_in(x["cond"])) and any(y is r for y in H.walk(x["then"])):
                val = H.show(r["e"])
                if "to_pipeline" in val:
                    good = True
    if good:
        ctx.ok("first-match", "return-at-first-match")
    else:
        ctx.violation("first-match", "return-at-first-match", "find_target_pipeline does not return the route's pipeline at the first pattern match inside the route loop: a later route can override an earlier one", site=h["span"])
    # no assignment-style selection (a variable overwritten in the loop)
    assigns = [x for f in fors for x in H.walk(f["body"]) if x.get("k") == "assign"]
    if assigns:
        ctx.violation("first-match", "no-overwrite", "find_target_pipeline assigns a candidate inside the loop (`%s`): the last matching route wins instead of the first" % H.show(assigns[0])[:60], site=assigns[0]["sp"])
    else:
        ctx.ok("first-match", "no-overwrite")
    tail = H.strip(h["body"]["tail"]) if h["body"].get("tail") else None
    if tail is not None and "pipelines.first()" in H.show(tail):
        ctx.ok("first-match", "default-first-pipeline")
    else:
        ctx.violation("first-match", "default-first-pipeline", "the fallback is `%s`, not the group's first pipeline" % (H.show(tail)[:60] if tail else None), site=h["span"])
    # iteration order: forward over spec.routes / event_types (no rev / sort)
    its = [H.show(f["iter"]) for f in fors]
    if any(".rev()" in i or "sort" in i for i in its):
        ctx.violation("first-match", "forward-order", "routes are not scanned in declaration order: %s" % its)
    else:
        ctx.ok("first-match", "forward-order", str(its))


def run_pattern(ctx):
    h = ctx.need_hir(MATCH, rule="pattern")
    txt = H.show(h["body"])
    i_star = txt.find('== "*"')
    i_pref = txt.find("strip_suffix")
    i_eq = txt.rfind("(event_type == pattern)")
    if 0 <= i_star < i_pref < i_eq and "event_type.starts_with(prefix)" in txt:
        ctx.ok("pattern", "order", "`*`, then trailing-`*` prefix, then equality")
    else:
        ctx.violation("pattern", "order", "event_type_matches no longer tests `*`, the trailing-`*` prefix (starts_with) and equality in that order: `%s`" % txt[:160], site=h["span"])


def run_siblings(ctx):
    F = ctx.facts()
    for fn in (C + "coordinator::Coordinator::resolve_inject_target", C + "coordinator::Coordinator::inject_batch"):
        calls = {c["inst"] or c["callee"] for c in F.calls_from(fn)}
        name = fn.rsplit("::", 1)[1]
        for need in (FIND, SELECT):
            if need in calls:
                ctx.ok("siblings", "%s:%s" % (name, need.rsplit("::", 1)[1]))
            else:
                ctx.violation("siblings", "%s:%s" % (name, need.rsplit("::", 1)[1]), "%s does not resolve its target through %s (a second implementation can disagree with the single-event path)" % (name, need))
    # nobody else picks replicas
    others = {root_fn(c["f"]) for c in F.calls if c["callee"].endswith("::replica_names") }
    ctx.sample({"select_replica_callers": sorted({root_fn(c["f"]).rsplit("::", 1)[1] for c in F.calls_to(SELECT)})})


def run_select(ctx):
    F = ctx.facts()
    b = ctx.need_body(SELECT, rule="select")
    calls = [(bb, t) for bb, t in b.calls()]
    names = [t["callee"] for _, t in calls]
    if any("RandomState" in n or "rand::" in n or "thread_rng" in n or "ahash" in n.lower() and "with_seed" not in n for n in names):
        ctx.violation("select", "fixed-key-hasher", "select_replica hashes with a randomly keyed hasher: the same key reaches different replicas in different processes / after a restart", site=b.js["span"])
    elif any(n.endswith("DefaultHasher::new") or "FxHasher" in n or n.endswith("SipHasher::new") for n in names):
        ctx.ok("select", "fixed-key-hasher", [n for n in names if "Hasher" in n][0])
    else:
        ctx.violation("select", "fixed-key-hasher", "no recognised fixed-key hasher construction in select_replica (%s)" % [n for n in names if "ash" in n][:4], site=b.js["span"])
    rmw = [(bb, t) for bb, t in calls if "Atomic" in t["callee"] and t["callee"].rsplit("::", 1)[1] in ("fetch_add", "fetch_update")]
    loads = [(bb, t) for bb, t in calls if "Atomic" in t["callee"] and t["callee"].rsplit("::", 1)[1] in ("load", "store") and "counter" in b.desc(t["args"][0])]
    if len(rmw) == 1 and not loads:
        ctx.ok("select", "round-robin-rmw", "single atomic fetch_add", site=rmw[0][1]["sp"])
    else:
        ctx.violation("select", "round-robin-rmw", "the round-robin index is not a single atomic read-modify-write (%d fetch_add, %d separate load/store): concurrent injections can skew replica loads by more than one" % (len(rmw), len(loads)), site=b.js["span"])
    h = ctx.need_hir(SELECT, rule="select")
    txt = H.show(h["body"])
    if "% self.replica_names.len()" in txt and txt.count("% self.replica_names.len()") >= 2:
        ctx.ok("select", "modulo-replica-count")
    else:
        ctx.violation("select", "modulo-replica-count", "replica index is not reduced modulo the replica count in both strategies", site=h["span"])
    if "fields.get(field)" in txt:
        ctx.ok("select", "key-from-configured-field")
    else:
        ctx.violation("select", "key-from-configured-field", "the hashed key is not the event's value of the configured partition field", site=h["span"])


def run_fresh_key(ctx):
    """the fields map from which select_replica takes the partition key must belong to the CURRENT event only: when the call sits
    in a loop over a batch, the map has to be created inside that loop (a map created once before the loop and filled per
    event keeps the previous events' fields, so a key-less event is routed by its predecessor's key)"""
    from vpr.prov import Slicer
    F = ctx.facts()
    n = 0
    for c in F.calls_to(SELECT):
        b = ctx.body(c["f"])
        t = b.term(c["bb"])
        if len(t["args"]) < 2 or not b.in_loop(c["bb"]):
            continue
        n += 1
        fn = root_fn(c["f"]).rsplit("::", 1)[1]
        # constructors of the map local: calls whose destination is the (root) local of the argument
        o = Slicer(b).origins([t["args"][1]], through_calls="none")
        ctor_blocks = [bb for cal, inst, bb in o.calls if (inst or cal).endswith(("::new", "::default", "::with_capacity")) and "Map" in (inst or cal)]
        key = "fresh-key:%s" % fn
        if not ctor_blocks:
            ctx.ok("siblings", key, "the key source is not a locally built map (%s)" % sorted(o.call_names())[:3], nontrivial=False)
            continue
        # a map created once but emptied at the start of every iteration is per-event as well
        root = b.desc(t["args"][1])
        clears = [cb for cb, ct in b.calls() if ct["callee"].rsplit("::", 1)[-1] == "clear" and ct["args"] and b.desc(ct["args"][0]) == root and b.in_loop(cb) and b.dominates(cb, c["bb"])]
        if all(b.in_loop(bb) for bb in ctor_blocks) or clears:
            ctx.ok("siblings", key, "the fields map is created (or cleared) per event inside the batch loop", site=t["sp"])
        else:
            ctx.violation("siblings", key, "%s builds the fields map it hands to select_replica once, outside the loop over the batch, and fills it per event: fields of earlier events persist, so an event without the partition key is routed by a predecessor's key — batch routing disagrees with single injection" % fn, site=t["sp"])
    ctx.floor("siblings", "select_replica calls inside a batch loop", n, 1)


def run(ctx):
    ctx.guard("siblings", lambda: run_fresh_key(ctx))
    ctx.guard("first-match", lambda: run_first_match(ctx))
    ctx.guard("pattern", lambda: run_pattern(ctx))
    ctx.guard("siblings", lambda: run_siblings(ctx))
    ctx.guard("select", lambda: run_select(ctx))
