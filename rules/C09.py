"""C09 — a filter selects the same events in `.where()` and in a sequence step (sibling arm tables, three-valued logic agreement)."""
import itertools

from vpr import hirq as H

EXPLANATION = (
    "Sibling cross-check (R-ARMS) of the two filter evaluators on type-checked HIR. (a) Row tables: for each comparison "
    "operator the (left type, right type) rows that give a definite answer are extracted from the VPL evaluator "
    "(eval_expr_with_functions; `==`/`!=` resolve to <Value as PartialEq>::eq, whose match is read too) and from the SASE "
    "predicate evaluator (compare_values -> values_equal / values_compare). A row present on one side only, or computed "
    "with another operation (exact float_eq vs |a-b| < EPSILON), selects different events for operands of those types. "
    "(b) Connectives: expr_to_sase_predicate translates not/and/or natively; the VPL evaluator is absent-strict (operands "
    "are obtained with `?`, so a missing field or a type mismatch makes the whole filter reject) while eval_predicate is "
    "two-valued with the leaf collapsing absent to false. Both semantics are extracted from the code (presence of `?` on "
    "operand evaluation, `is_some_and` at the leaf, `!`/`&&`/`||` in the arms) and compared by enumerating all formulas of "
    "depth <= 2 over leaves {true,false,absent}: the smallest disagreeing formula per connective is reported. The "
    "translator's fallback (Predicate::Expr) is evaluated by the VPL evaluator itself and agrees by construction."
)
DECIDED = ["comparison rows (operand type pairs) on which the two evaluators disagree", "connectives whose treatment of an absent operand differs",
           "each ordering operator of the step evaluator is true exactly on its orderings and false for incomparable operands"]
NOT_DECIDED = ["agreement for expressions the translator hands to Predicate::Expr beyond it being the same evaluator", "float rounding inside a row"]

R = "varpulis_runtime::"
EVAL = R + "engine::evaluator::eval_expr_with_functions"
VEQ = "<varpulis_core::value::Value as core::cmp::PartialEq>::eq"
VAL = "varpulis_core::value::Value::"
BINOP = "varpulis_core::ast::BinOp::"
CMP = ("Eq", "NotEq", "Lt", "Le", "Gt", "Ge")


def sig_of(e):
    s = []
    for x in H.walk(e):
        if x.get("k") == "mcall" and x["method"] not in ("clone", "as_ref", "into"):
            s.append(x["method"])
        elif x.get("k") == "call":
            c = x.get("callee") or ""
            if c.startswith("def:"):
                s.append(c.rsplit("::", 1)[1])
        elif x.get("k") == "bin":
            s.append(x["op"])
        elif x.get("k") == "path" and str(x.get("res", "")).endswith("EPSILON"):
            s.append("EPSILON")
        elif x.get("k") == "cast":
            s.append("as " + x["ty"])
    return sorted(s)


def value_rows(m):
    """rows of a match over (Value, Value): {(l, r): arm} for arms whose result is not the constant false / None"""
    rows = {}
    for head, pat, arm in H.arm_rows(m):
        if isinstance(head, tuple) and len(head) == 2 and all(isinstance(x, str) and x.startswith(VAL) for x in head):
            body = H.strip(arm["body"])
            txt = H.show(body)
            if txt in ("false", "None", "core::option::Option::None"):
                continue
            rows[(head[0][len(VAL):], head[1][len(VAL):])] = arm
    return rows


def first_value_match(h):
    for m in H.matches_on(h["body"], lambda t: t.startswith("(") and t.count("Value") == 2):
        return m
    return None


def run_rows(ctx):
    F = ctx.facts()
    eh = ctx.need_hir(EVAL, rule="rows")
    ev = {}
    for m in H.matches_on(eh["body"], lambda t: "varpulis_core::ast::BinOp" in t and "Expr" not in t):
        for head, pat, arm in H.arm_rows(m):
            if not (isinstance(head, str) and head.startswith(BINOP)):
                continue
            op = head[len(BINOP):]
            if op not in CMP or op in ev:
                continue
            inner = H.strip(arm["body"])
            if inner.get("k") == "match":
                ev[op] = {k: sig_of(a["body"]) for k, a in value_rows(inner).items()}
            else:
                # `left_val == right_val` -> <Value as PartialEq>::eq
                bins = [x for x in H.walk(inner) if x.get("k") == "bin" and x["op"] in ("Eq", "Ne") and "Value" in x.get("lty", "")]
                if not bins:
                    ctx.anchor_lost("rows", "evaluator arm for %s is neither a row match nor a Value comparison" % op)
                    continue
                vh = ctx.need_hir(VEQ, rule="rows")
                vm = first_value_match(vh)
                ev[op] = {k: sig_of(a["body"]) for k, a in value_rows(vm).items()} if vm else {}
    ctx.floor("rows", "evaluator comparison operators with a row table", len(ev), 6)
    # SASE side
    ch = ctx.need_hir(R + "sase::compare_values", rule="rows")
    helper = {}
    for m in H.matches_on(ch["body"], lambda t: t.endswith("CompareOp")):
        for head, pat, arm in H.arm_rows(m):
            if isinstance(head, str) and "CompareOp::" in head:
                op = head.rsplit("::", 1)[1]
                calls = [x["callee"][4:] for x in H.walk(arm["body"]) if x.get("k") == "call" and str(x.get("callee", "")).startswith("def:" + R + "sase::values_")]
                if calls:
                    helper[op] = calls[0]
    ctx.floor("rows", "SASE CompareOp arms resolved to a helper", len(helper), 6)
    tables = {}
    for fn in set(helper.values()):
        hh = ctx.need_hir(fn, rule="rows")
        vm = first_value_match(hh)
        tables[fn] = {k: sig_of(a["body"]) for k, a in value_rows(vm).items()} if vm else {}
    # the right operand of Predicate::Compare is a literal converted by expr_to_value: only those variants are reachable
    xh = ctx.need_hir(R + "engine::compiler::expr_to_value", rule="rows")
    lit_types = {x["callee"].rsplit("::", 1)[1] for x in H.walk(xh["body"]) if x.get("k") == "call" and str(x.get("callee", "")).startswith("variant:" + VAL)}
    ctx.floor("rows", "literal types expr_to_value converts", len(lit_types), 3)
    n = 0
    for op in CMP:
        if op not in ev or op not in helper:
            continue
        er, sr = ev[op], tables[helper[op]]
        hname = helper[op].rsplit("::", 1)[1]
        fam = "eq" if op in ("Eq", "NotEq") else "order"
        for row in sorted(set(er) | set(sr)):
            if row[1] not in lit_types:
                continue  # other literals / expressions are translated to Predicate::Expr, i.e. the VPL evaluator itself
            n += 1
            key = "%s:%s:(%s,%s)" % (fam, op, row[0], row[1])
            if row in er and row in sr:
                a, b = er[row], sr[row]
                # ordering rows: the evaluator compares with the operator itself, SASE with cmp/partial_cmp — same order
                casts = lambda s: [t for t in s if t.startswith("as ")]
                if (fam == "order" and casts(a) == casts(b)) or a == b:
                    ctx.ok("rows", key, "both evaluators decide this row (conversions %s)" % (casts(a) or "none"))
                elif fam == "order":
                    ctx.violation("rows", key, "`%s` on (%s, %s): `.where()` converts the operands with %s, the sequence-step evaluator (%s) with %s — mixed-type comparisons order differently" % (op, row[0], row[1], casts(a), hname, casts(b)))
                else:
                    ctx.violation("rows", key, "`%s` on (%s, %s): `.where()` decides with %s, a sequence-step filter (%s) with %s — the two accept different events for operands within the tolerance / special values" % (op, row[0], row[1], a, hname, b))
            elif row in sr:
                ctx.violation("rows", key, "`%s` on (%s, %s): a sequence-step filter (%s) gives a definite answer, `.where()` has no such row (%s) — the same filter selects different events" % (
                    op, row[0], row[1], hname, "equality is false" if fam == "eq" else "no value, the event is rejected"))
            else:
                ctx.violation("rows", key, "`%s` on (%s, %s): `.where()` gives a definite answer, the sequence-step evaluator (%s) has no such row — the same filter selects different events" % (op, row[0], row[1], hname))
        ctx.sample({"op": op, "where_rows": sorted(map(list, er)), "sase_rows": sorted(map(list, sr))})
    ctx.floor("rows", "(operator, row) pairs compared", n, 24)


# ---- three-valued agreement ----
T, Fv, A = "true", "false", "absent"


def run_logic(ctx):
    F = ctx.facts()
    eh = ctx.need_hir(EVAL, rule="logic")
    # evaluator: are Binary operands and the Unary operand obtained with `?` (absent-strict)?
    strict = {}
    for m in H.matches_on(eh["body"], lambda t: t.endswith("ast::Expr") or t.endswith("ast::Expr&") or "&varpulis_core::ast::Expr" in t):
        for head, pat, arm in H.arm_rows(m):
            if head == "varpulis_core::ast::Expr::Binary" and "bin" not in strict:
                tries = [x for x in H.walk(arm["body"], into_closures=False) if x.get("k") == "try" and any(c.get("k") == "call" and str(c.get("callee", "")).endswith("eval_expr_with_functions") for c in H.walk(x["e"]))]
                strict["bin"] = len(tries) >= 2
            if head == "varpulis_core::ast::Expr::Unary" and "un" not in strict:
                tries = [x for x in H.walk(arm["body"], into_closures=False) if x.get("k") == "try" and any(c.get("k") == "call" and str(c.get("callee", "")).endswith("eval_expr_with_functions") for c in H.walk(x["e"]))]
                strict["un"] = len(tries) >= 1
    if set(strict) != {"bin", "un"}:
        ctx.anchor_lost("logic", "Binary / Unary arms of the evaluator not found (%s)" % sorted(strict))
        return
    # short-circuit forms in the evaluator would make and/or non-strict: the And/Or arms must read both operands
    # SASE side
    ph = ctx.need_hir(R + "sase::eval_predicate", rule="logic")
    sem = {}
    leaf_absent = None
    for m in H.matches_on(ph["body"], lambda t: t.endswith("sase::Predicate") or "sase::Predicate" in t):
        for head, pat, arm in H.arm_rows(m):
            if not isinstance(head, str) or "Predicate::" not in head:
                continue
            v = head.rsplit("::", 1)[1]
            body = H.strip(arm["body"])
            if v == "Compare":
                ms = [x["method"] for x in H.walk(body) if x.get("k") == "mcall"]
                leaf_absent = Fv if ("is_some_and" in ms or "unwrap_or" in ms or "map_or" in ms) else None
            elif v == "Not":
                sem["not"] = "!" if body.get("k") == "un" and body["op"] == "Not" else "?"
            elif v in ("And", "Or"):
                sem[v.lower()] = {"And": "&&", "Or": "||"}.get(body.get("op")) if body.get("k") == "bin" else "?"
        break
    if leaf_absent is None or set(sem) != {"not", "and", "or"}:
        ctx.anchor_lost("logic", "eval_predicate arms not recognised (leaf %s, connectives %s)" % (leaf_absent, sem))
        return
    # translator: which connectives become native predicates
    th = ctx.need_hir(R + "engine::compiler::expr_to_sase_predicate", rule="logic")
    native = set()
    for x in H.walk(th["body"]):
        if x.get("k") == "call" and str(x.get("callee", "")).startswith("variant:" + R + "sase::Predicate::"):
            native.add(x["callee"].rsplit("::", 1)[1].lower())
    ctx.sample({"evaluator_absent_strict": strict, "sase_leaf_on_absent": leaf_absent, "sase_connectives": sem, "natively_translated": sorted(native)})

    def ev_eval(f):  # evaluator: three-valued, strict
        if isinstance(f, str):
            return f
        if f[0] == "not":
            x = ev_eval(f[1])
            return A if (x == A and strict["un"]) else (T if x == Fv else Fv if x == T else T)
        a, b = ev_eval(f[1]), ev_eval(f[2])
        if strict["bin"] and A in (a, b):
            return A
        a, b = a == T, b == T
        return T if (a and b if f[0] == "and" else a or b) else Fv

    def sa_eval(f):
        if isinstance(f, str):
            return leaf_absent if f == A else f
        if f[0] == "not":
            return T if sa_eval(f[1]) == Fv else Fv
        a, b = sa_eval(f[1]) == T, sa_eval(f[2]) == T
        return T if (a and b if f[0] == "and" else a or b) else Fv

    def uses(f):
        return set() if isinstance(f, str) else {f[0]} | set().union(*[uses(x) for x in f[1:]])

    def size(f):
        return 1 if isinstance(f, str) else 1 + sum(size(x) for x in f[1:])

    def disagree(f):
        return (ev_eval(f) == T) != (sa_eval(f) == T)

    leaves = [T, Fv, A]
    d1 = [("not", a) for a in leaves] + [(c, a, b) for c in ("and", "or") for a in leaves for b in leaves]
    d2 = [("not", a) for a in d1] + [(c, a, b) for c in ("and", "or") for a, b in itertools.product(leaves + d1, repeat=2)]
    bad = {}
    total = 0
    for f in sorted(d1 + d2, key=size):
        if not uses(f) <= native:
            continue  # a connective that is not translated natively goes to Predicate::Expr = the evaluator itself
        total += 1
        if disagree(f) and not any(disagree(x) for x in f[1:]):
            # attributed to the top connective: its operands are accepted / rejected alike by both evaluators
            bad.setdefault(f[0], f)
    ctx.floor("logic", "formulas of depth <= 2 over {true,false,absent} compared", total, 100 if native else 0)

    def fmt(f):
        return f if isinstance(f, str) else ("not(%s)" % fmt(f[1]) if f[0] == "not" else "(%s %s %s)" % (fmt(f[1]), f[0], fmt(f[2])))
    for c in ("not", "and", "or"):
        if c not in native:
            ctx.ok("logic", c, "not translated natively (evaluated by the VPL evaluator)")
        elif c in bad:
            f = bad[c]
            ctx.violation("logic", c, "`%s` with an absent operand (missing field or type mismatch): smallest disagreeing filter %s — `.where()` %s it (absent propagates through `?`), a sequence step %s it (the leaf turns absent into false, then %s)" % (
                c, fmt(f), "accepts" if ev_eval(f) == T else "rejects", "accepts" if sa_eval(f) == T else "rejects", sem[c]), site=th["sp"] if "sp" in th else None)
        else:
            ctx.ok("logic", c, "agrees on all formulas with this top connective")


ORD = ("Less", "Equal", "Greater")
WANT = {"Lt": {"Less"}, "Le": {"Less", "Equal"}, "Gt": {"Greater"}, "Ge": {"Greater", "Equal"}}


def ord_eval(e, inp):
    """value of a compare_values arm body when values_compare(..) yields `inp` (None or one of ORD); None = not recognised"""
    e = H.strip(e)
    k = e.get("k")

    def is_cmp_call(x):
        x = H.strip(x)
        return x.get("k") == "call" and str(x.get("callee", "")).endswith("sase::values_compare")

    def some_of(x):
        x = H.strip(x)
        if x.get("k") == "call" and str(x.get("callee", "")).endswith("Option::Some") and x["args"]:
            a = H.strip(x["args"][0])
            if a.get("k") == "path" and "cmp::Ordering::" in str(a.get("res", "")):
                return a["res"].rsplit("::", 1)[1]
        if x.get("k") == "path" and str(x.get("res", "")).endswith("Option::None"):
            return "None"
        return None
    if k == "un" and e["op"] == "Not":
        v = ord_eval(e["e"], inp)
        return None if v is None else (not v)
    if k == "bin" and e["op"] in ("Eq", "Ne"):
        for a, b in ((e["l"], e["r"]), (e["r"], e["l"])):
            if is_cmp_call(a) and some_of(b) is not None:
                want = some_of(b)
                eq = (inp is None and want == "None") or (inp is not None and inp == want)
                return eq if e["op"] == "Eq" else not eq
        return None
    if k == "mcall" and e["method"] in ("is_some_and", "map_or", "is_none_or") and is_cmp_call(e["recv"]):
        # values_compare(..).is_some_and(|o| o == / != Ordering::X)   |   .map_or(default, |o| ..)
        clo = H.strip(e["args"][-1])
        if clo.get("k") != "closure":
            return None
        if inp is None:
            if e["method"] == "is_some_and":
                return False
            if e["method"] == "is_none_or":
                return True
            d = H.strip(e["args"][0])
            return (d["v"]["v"] == "true") if d.get("k") == "lit" else None
        body = H.strip(clo["body"])
        if body.get("k") == "bin" and body["op"] in ("Eq", "Ne"):
            names = [str(H.strip(x).get("res", "")).rsplit("::", 1)[-1] for x in (body["l"], body["r"]) if "cmp::Ordering::" in str(H.strip(x).get("res", ""))]
            if len(names) == 1:
                eq = inp == names[0]
                return eq if body["op"] == "Eq" else not eq
        if body.get("k") == "match":
            for arm in body["arms"]:
                ps = H.pat_str(arm["pat"])
                b2 = H.strip(arm["body"])
                if b2.get("k") != "lit":
                    return None
                if ps == "_" or inp in ps:
                    return b2["v"]["v"] == "true"
            return None
        return None
    if k == "match" and is_cmp_call(e["scrut"]):
        for arm in e["arms"]:
            ps = H.pat_str(arm["pat"])
            body = H.strip(arm["body"])
            if body.get("k") != "lit":
                return None
            val = body["v"]["v"] == "true"
            if ps == "_":
                return val
            if "Option::None" in ps or ps == "None":
                if inp is None:
                    return val
                continue
            if "Some(" in ps:
                names = [o for o in ORD if o in ps]
                if "Some(_)" in ps.replace(" ", ""):
                    names = list(ORD)
                if inp is not None and inp in names:
                    return val
                continue
            return None
        return None
    return None


def run_mapping(ctx):
    """how compare_values turns the Option<Ordering> of values_compare into the answer of each ordering operator: true exactly on
    the operator's orderings and FALSE when there is no ordering (None: incomparable types, NaN) — `.where()` rejects such an
    event (its arm yields no value); a negated form (`!= Some(Greater)`) accepts it"""
    ch = ctx.need_hir(R + "sase::compare_values", rule="mapping")
    n = 0
    for m in H.matches_on(ch["body"], lambda t: t.endswith("CompareOp")):
        for head, pat, arm in H.arm_rows(m):
            if not (isinstance(head, str) and "CompareOp::" in head):
                continue
            op = head.rsplit("::", 1)[1]
            if op not in WANT:
                continue
            n += 1
            res = {i: ord_eval(arm["body"], i) for i in (None,) + ORD}
            if any(v is None for v in res.values()):
                ctx.anchor_lost("mapping", "compare_values arm for %s: body not recognised (%s)" % (op, H.show(arm["body"])[:80]))
                continue
            acc = {i for i in ORD if res[i]}
            if res[None]:
                ctx.violation("mapping", "%s:incomparable" % op, "`%s` in a sequence-step filter is TRUE when the operands have no ordering (values_compare = None: string vs number, bool, NaN): the step accepts `x %s 5` for x = \"abc\", `.where()` rejects it" % (op, {"Lt": "<", "Le": "<=", "Gt": ">", "Ge": ">="}[op]), site=arm["sp"])
            elif acc != WANT[op]:
                ctx.violation("mapping", "%s:orderings" % op, "`%s` in a sequence-step filter holds on the orderings %s; the operator means %s" % (op, sorted(acc), sorted(WANT[op])), site=arm["sp"])
            else:
                ctx.ok("mapping", op, "true on %s, false when incomparable" % sorted(acc), site=arm["sp"])
        break
    ctx.floor("mapping", "ordering operators of compare_values", n, 4)


def run(ctx):
    ctx.guard("mapping", lambda: run_mapping(ctx))
    ctx.guard("rows", lambda: run_rows(ctx))
    ctx.guard("logic", lambda: run_logic(ctx))
