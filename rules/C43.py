"""C43 — language-server requests never crash: char-vs-byte units of str slice indices (R-UNITS)."""
from vpr import hirq as H

EXPLANATION = (
    "R-UNITS on type-checked HIR of the varpulis_lsp crate: every slice of a str/String by a range (Index<Range*<usize>>) is "
    "a byte-offset operation that panics when an endpoint is not a char boundary. Each endpoint is traced (locals, casts, "
    "min/max/saturating arithmetic, tuple returns, parameters through all callers in the crate) to its sources; an endpoint "
    "that derives from a character-counted quantity (lsp Position.character, `.chars().count()`, a counter incremented per "
    "char of a `for _ in s.chars()` loop) is a unit mismatch that panics on every document with a multi-byte character "
    "before the position. `min(x, len)` keeps x's unit."
)
DECIDED = ["no str slice in the LSP crate is indexed by a character-counted value"]
NOT_DECIDED = ["byte-valued indices that are not char boundaries for other reasons", "ranges reported being inside the document", "panics other than str slicing"]

STR_TYS = ("&str", "str", "alloc::string::String", "&alloc::string::String", "&mut alloc::string::String", "&&str")
# fields of foreign/own types that are character-counted by contract, one line of reason each
CHAR_FIELDS = {
    # pest's Position::line_col counts the column in characters; varpulis_parser copies it into ParseError::Located.column
    ("varpulis_parser::error::ParseError::Located", "column"): "ParseError::Located.column (pest line_col: column counted in characters)",
}
PASS_METHODS = {"min", "max", "saturating_sub", "saturating_add", "wrapping_sub", "wrapping_add", "unwrap_or", "unwrap_or_default", "clone", "checked_sub", "unwrap", "into", "try_into", "clamp"}


class Units:
    def __init__(self, F, crate_prefix):
        self.F = F
        self.fns = {p: F.hir(p) for p in F.hir_paths() if p.startswith(crate_prefix)}
        self.char_counters = {}  # fn -> set(local names)
        self.callers = {}  # callee -> [(caller fn, args exprs)]
        for p, h in self.fns.items():
            cc = set()
            for x in H.walk(h["body"]):
                if x.get("k") == "for" and self._iter_over_chars(x["iter"]):
                    for y in H.walk(x["body"]):
                        if y.get("k") == "assign" and y["op"] == "Add":
                            r = H.strip(y["r"])
                            n = H.local_key(y["l"])
                            if n and r.get("k") == "lit" and r["v"]["t"] == "int":
                                cc.add(n)
                if x.get("k") in ("call", "mcall"):
                    d = x["def"] if x["k"] == "mcall" else (x["callee"].split(":", 1)[1] if isinstance(x["callee"], str) else None)
                    if d in self.fns:
                        args = ([x["recv"]] + x["args"]) if x["k"] == "mcall" else x["args"]
                        self.callers.setdefault(d, []).append((p, args))
            self.char_counters[p] = cc

    @staticmethod
    def _iter_over_chars(e):
        ms = [x["method"] for x in H.walk(e) if x.get("k") == "mcall"]
        return "chars" in ms and "char_indices" not in ms

    def local_defs(self, fn, key):
        """definitions of the binding `key` (name#id) in fn:
        ('expr', e) | ('tuple', call expr, idx) | ('param', idx) | ('patfield', variant path, field name)"""
        h = self.fns[fn]
        out = []
        for i, p in enumerate(h["params"]):
            if key in H.pat_bind_keys(p):
                out.append(("param", i))
        for s in H.lets(h["body"]):
            pat, init = s["pat"], s["init"]
            if init is None:
                continue
            if pat["k"] == "bind" and H.bind_key(pat) == key:
                out.append(("expr", init))
            elif pat["k"] == "tuple":
                for i, sub in enumerate(pat["sub"]):
                    if key in H.pat_bind_keys(sub):
                        out.append(("tuple", init, i))
        for x in H.walk(h["body"]):
            if x.get("k") == "assign" and H.local_key(x["l"]) == key and x["op"] is None:
                out.append(("expr", x["r"]))
            if x.get("k") == "match":
                for a in x["arms"]:
                    for alt in H.pat_alts(a["pat"]):
                        pp = alt
                        while pp["k"] == "ref":
                            pp = pp["sub"]
                        if pp["k"] == "variant" and "fields" in pp:
                            for fname, sub in pp["fields"].items():
                                if key in H.pat_bind_keys(sub):
                                    out.append(("patfield", pp["path"].split(":", 1)[1], fname))
        return out

    def tainted(self, fn, e, seen=None, depth=0):
        """reason (str) if e derives from a character-counted quantity"""
        seen = seen if seen is not None else set()
        e = H.strip(e)
        if e is None or depth > 12:
            return None
        k = e.get("k")
        if k == "cast":
            return self.tainted(fn, e["e"], seen, depth + 1)
        if k == "field":
            if e["name"] == "character" and e["adt"].endswith("Position"):
                return "Position.character (UTF-16/char column) at %s" % e["sp"]
            return None
        if k == "mcall":
            m = e["method"]
            if m == "count" and any(x.get("k") == "mcall" and x["method"] == "chars" for x in H.walk(e["recv"])):
                return ".chars().count() at %s" % e["sp"]
            if m in PASS_METHODS:
                for a in [e["recv"]] + e["args"]:
                    r = self.tainted(fn, a, seen, depth + 1)
                    if r:
                        return r
            return None
        if k == "call":
            c = e["callee"]
            if isinstance(c, str) and (c.endswith("::min") or c.endswith("::max")):
                for a in e["args"]:
                    r = self.tainted(fn, a, seen, depth + 1)
                    if r:
                        return r
            return None
        if k == "bin" and e["op"] in ("Add", "Sub", "Mul"):
            return self.tainted(fn, e["l"], seen, depth + 1) or self.tainted(fn, e["r"], seen, depth + 1)
        if k == "if":
            return self.tainted(fn, e["then"], seen, depth + 1) or self.tainted(fn, e["else"], seen, depth + 1)
        if k == "block":
            return self.tainted(fn, e["tail"], seen, depth + 1)
        if k == "path" and e["res"].startswith("local:"):
            name = e["res"][6:]  # unique binding key name#id
            if (fn, name) in seen:
                return None
            seen.add((fn, name))
            if name in self.char_counters.get(fn, ()):
                return "`%s` is incremented once per char of a `for .. in ..chars()` loop in %s" % (name.split("#")[0], fn.rsplit("::", 1)[1])
            for d in self.local_defs(fn, name):
                if d[0] == "expr":
                    r = self.tainted(fn, d[1], seen, depth + 1)
                elif d[0] == "tuple":
                    r = self.tainted_ret(d[1], d[2], seen, depth + 1)
                elif d[0] == "patfield":
                    r = CHAR_FIELDS.get((d[1], d[2]))
                else:
                    r = self.tainted_param(fn, d[1], seen, depth + 1)
                if r:
                    return r
            return None
        return None

    def tainted_ret(self, call, idx, seen, depth):
        call = H.strip(call)
        if call.get("k") not in ("call", "mcall"):
            return None
        d = call["def"] if call["k"] == "mcall" else (call["callee"].split(":", 1)[1] if isinstance(call["callee"], str) else None)
        if d not in self.fns:
            return None
        h = self.fns[d]
        rets = [x["e"] for x in H.walk(h["body"]) if x.get("k") == "ret"]
        body = H.strip(h["body"])
        tail = body["tail"] if body.get("k") == "block" else body
        for r in rets + [tail]:
            r = H.strip(r)
            if r is not None and r.get("k") == "tuple" and idx < len(r["es"]):
                t = self.tainted(d, r["es"][idx], seen, depth + 1)
                if t:
                    return t + " (returned by %s)" % d.rsplit("::", 1)[1]
        return None

    def tainted_param(self, fn, idx, seen, depth):
        for caller, args in self.callers.get(fn, ()):
            if idx < len(args):
                t = self.tainted(caller, args[idx], seen, depth + 1)
                if t:
                    return t + " (passed by %s)" % caller.rsplit("::", 1)[1]
        return None


def run_index_bounds(ctx):
    """R-BOUNDS: every scalar index `v[i]` into a Vec / slice in the LSP crate is executed only where `i < v.len()` is known:
    from an enclosing `if` / `while` condition or the left operands of the `&&` chain it sits in, or `i` was produced by
    `v.iter().position(..)` on the same vector. (`v.get(i)` never panics and is not a site.)"""
    from rules.C11 import _conjuncts, _opkey, _rel_facts
    F = ctx.facts()
    n = 0
    counts = {}
    for p in F.hir_paths():
        if not p.startswith("varpulis_lsp::"):
            continue
        h = F.hir(p)

        def visit(e, facts, posbound):
            nonlocal n
            if e is None:
                return
            k = e.get("k")
            if k == "bin" and e["op"] == "And":
                visit(e["l"], facts, posbound)
                visit(e["r"], facts + _conjuncts(e["l"]), posbound)
                return
            if k == "if":
                c = H.strip(e["cond"])
                pb = dict(posbound)
                if c is not None and c.get("k") == "letcond":
                    # if let Some(i) = v.iter().position(..)
                    init = H.strip(c["init"])
                    if init.get("k") == "mcall" and init["method"] in ("position", "rposition"):
                        root = init["recv"]
                        while H.strip(root).get("k") == "mcall":
                            root = H.strip(root)["recv"]
                        for key in H.pat_bind_keys(c["pat"]):
                            pb[key] = _opkey(root)
                visit(e["cond"], facts, posbound)
                visit(e["then"], facts + _conjuncts(e["cond"]), pb)
                visit(e["else"], facts, posbound)
                return
            if k == "index" and not e["ity"].startswith("core::ops::range") and ("alloc::vec::Vec<" in e["ety"] or e["ety"].lstrip("&").startswith("[")):
                n += 1
                cont = _opkey(e["e"])
                idx = _opkey(e["i"])
                base = "%s:%s" % (p.rsplit("::", 1)[1], H.show(e)[:40])
                counts[base] = counts.get(base, 0) + 1
                key = base if counts[base] == 1 else "%s#%d" % (base, counts[base])
                rel = _rel_facts(facts)
                lt = set()
                for c in facts:
                    c = H.strip(c)
                    if c.get("k") == "bin" and c["op"] in ("Lt", "Gt"):
                        a, b = _opkey(c["l"]), _opkey(c["r"])
                        if c["op"] == "Gt":
                            a, b = b, a
                        lt.add((a, b))
                if (idx, "len(%s)" % cont) in lt or posbound.get(idx) == cont or H.strip(e["i"]).get("k") == "lit":
                    ctx.ok("index-bounds", key, site=e["sp"])
                else:
                    ctx.violation("index-bounds", key, "`%s` indexes a vector without a dominating `%s < %s.len()` test (known here: %s): it panics for a position past the end of the line, e.g. a character column compared against the line's byte length" % (
                        H.show(e)[:50], H.show(e["i"])[:30], H.show(e["e"])[:30], sorted("%s < %s" % (a.split("#")[0], b.split("#")[0]) for a, b in lt)[:4]), site=e["sp"])
            for c in H.children(e):
                visit(c, facts, posbound)

        visit(h["body"], [], {})
    ctx.floor("index-bounds", "scalar vector index sites in the LSP crate", n, 10)


def run(ctx):
    ctx.guard("index-bounds", lambda: run_index_bounds(ctx))
    F = ctx.facts()
    U = Units(F, "varpulis_lsp::")
    ctx.floor("units", "function bodies of the LSP crate", len(U.fns), 40)
    n = 0
    counts = {}
    for fn, h in sorted(U.fns.items()):
        for x in H.walk(h["body"]):
            if x.get("k") != "index" or x["ety"] not in STR_TYS or not x["ity"].startswith("core::ops::range::Range"):
                continue
            n += 1
            rng = H.strip(x["i"])
            ends = []
            if rng.get("k") == "struct":
                ends = [(f["n"], f["e"]) for f in rng["fields"]]
            else:
                ends = [("range", rng)]
            base = "%s:%s" % (fn, H.show(x["e"])[:30])
            ordn = counts.get(base, 0)
            counts[base] = ordn + 1
            key = base if ordn == 0 else "%s#%d" % (base, ordn)
            why = None
            for nm, e in ends:
                why = U.tainted(fn, e)
                if why:
                    why = "%s endpoint `%s`: %s" % (nm, H.show(e)[:50], why)
                    break
            if why:
                ctx.violation("units", key, "str slice `%s` indexed by a character-counted value — %s; panics when a multi-byte character precedes the position" % (H.show(x)[:70], why), site=x["sp"])
            else:
                ctx.ok("units", key, site=x["sp"])
                if len(ctx.samples) < 8:
                    ctx.sample({"slice": H.show(x)[:80], "site": x["sp"]})
    ctx.floor("units", "str range-slice sites in the LSP crate", n, 12)
    # positive control: the taint sources must exist in the crate (otherwise the rule is blind)
    src = 0
    for fn, h in U.fns.items():
        for x in H.walk(h["body"]):
            if x.get("k") == "field" and x["name"] == "character" and x["adt"].endswith("Position"):
                src += 1
    src += sum(len(v) for v in U.char_counters.values())
    ctx.floor("units", "character-counted sources seen (Position.character reads, per-char counters)", src, 3)
