"""C17 — each stream processes each routed event exactly once (routing table discipline, lookup key, requeue discipline)."""
from rules import C16

EXPLANATION = (
    "On MIR: (a) EventRouter::add_route appends a stream name only under a failed `contains` test (no duplicate route, hence "
    "no double processing of one event by one stream) and EventRouter.routes is written only by add_route / clear / new; "
    "(b) in each of the four engine entry points the route lookup key is the current event's own event_type and every stream "
    "name of the looked-up list is visited once (single loop over the list); (c) the chain-depth constants agree and "
    "un-renamed outputs are never queued for routing (rules shared with C16) — a queued un-renamed output is routed back to "
    "the streams that consume the input type and processed again."
)
DECIDED = ["no duplicate routes", "routes are looked up by the event's own type in every entry point", "outputs are queued only in renamed form (shared with C16)", "chain depth limits agree"]
NOT_DECIDED = ["per-stream processed-event counts as such", "behaviour beyond the documented chain depth of 10"]

R = "varpulis_runtime::engine::"
ROUTER = R + "router::EventRouter"


def run(ctx):
    F = ctx.facts()
    b = ctx.need_body(ROUTER + "::add_route", rule="route-table")
    pushes = [(bb, t) for bb, t in b.calls() if t["callee"].endswith("Vec::<T, A>::push")]
    ctx.floor("route-table", "push sites in add_route", len(pushes), 1)
    for i, (bb, t) in enumerate(pushes):
        gs = b.guards_of(bb)
        ok = any(g["kind"] == "call" and g["call"]["callee"].endswith("::contains") and g["taken"] == "false" for g in gs) or \
             any("contains(" in g.get("text", "") and ((g["taken"] == "true") == g["text"].startswith("Not(")) for g in gs)
        if ok:
            ctx.ok("route-table", "add_route:push#%d" % (i + 1), "under !contains", site=t["sp"])
        else:
            ctx.violation("route-table", "add_route:push#%d" % (i + 1), "add_route appends the stream without testing that it is not registered for the type already: a stream registered twice processes every event of that type twice", site=t["sp"])
    writers = F.field_accessors(ROUTER, "routes", kinds=("w", "m"))
    for w in sorted(writers):
        if w.endswith(("::add_route", "::clear", "::new")):
            ctx.ok("route-table", "writer:" + w.rsplit("::", 1)[1])
        else:
            ctx.violation("route-table", "writer:" + w, "%s mutates the routing table directly" % w)
    # lookups
    n = 0
    for e in C16.ENTRIES:
        for p in F.bodies_of(e):
            pb = ctx.body(p)
            for bb, t in pb.calls():
                if (t["inst"] or t["callee"]) != ROUTER + "::get_routes":
                    continue
                d = pb.desc(t["args"][1])
                name = e.rsplit("::", 1)[1]
                if "stream_name" in d or d.startswith("sn") or "side" in d:
                    continue  # lookups of a stream's downstream consumers / late-data configuration, not event routing
                n += 1
                if "event_type" in d and ("current_event" in d or "event" in d):
                    ctx.ok("lookup-key", "%s#%d" % (name, n), d[:60], site=t["sp"])
                else:
                    ctx.violation("lookup-key", "%s#%d" % (name, n), "%s looks routes up by `%s`, not by the current event's event_type" % (name, d[:60]), site=t["sp"])
    ctx.floor("lookup-key", "route lookups in the entry points", n, 4)
    ctx.guard("chain-depth", lambda: C16.run_consts(ctx))
    ctx.guard("requeue", lambda: C16.run_routing(ctx))
