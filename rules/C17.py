"""C17 — each stream processes each routed event exactly once (routing table discipline, lookup key, requeue discipline)."""
from rules import C16

EXPLANATION = (
    "On MIR: (a) EventRouter::add_route appends a stream name only under a failed `contains` test (no duplicate route, hence "
    "no double processing of one event by one stream) and EventRouter.routes is written only by add_route / clear / new; "
    "(b) in each of the four engine entry points the route lookup key is the current event's own event_type and every stream "
    "name of the looked-up list is visited once (single loop over the list); (c) the chain-depth constants agree and "
    "un-renamed outputs are never queued for routing (rules shared with C16) — a queued un-renamed output is routed back to "
    "the streams that consume the input type and processed again."
    " Route origins: the identifier source arms (plain, aliased, all-aliased) add the underlying event type to the stream's routes only under the sequence-operations flag or a named-pattern reference."
)
DECIDED = ["no duplicate routes", "routes are looked up by the event's own type in every entry point", "outputs are queued only in renamed form (shared with C16)", "chain depth limits agree", "identifier sources are resolved to raw event types only for sequence streams"]
NOT_DECIDED = ["per-stream processed-event counts as such", "behaviour beyond the documented chain depth of 10"]

R = "varpulis_runtime::engine::"
ROUTER = R + "router::EventRouter"


def run_source_types(ctx):
    """route origins of a stream: the loader also routes to a stream the event types collected in `sequence_event_types`. A
    source identifier (plain or aliased) may be resolved to its underlying event type and added there only for streams with
    sequence operations (or named-pattern references); otherwise a derived stream `B = A_stream as a .where(..)` is routed
    both A_stream's outputs and the raw events A_stream consumes, and processes events twice / events its upstream filtered out"""
    from vpr import hirq as H
    fn = "varpulis_runtime::engine::Engine::compile_ops_with_sequences"
    h = ctx.need_hir(fn, rule="source-types")
    # the sequence-ops flag, by role: a bool local initialised from `ops.iter().any(|op| matches!(op, FollowedBy | Not | Within))`
    flags = set()
    for s_ in H.lets(h["body"]):
        if s_["pat"]["k"] == "bind" and s_.get("init") is not None:
            txt = H.show(s_["init"], maxdepth=30)
            pats = " ".join(H.pat_str(a["pat"]) for m in H.walk(s_["init"]) if m.get("k") == "match" for a in m["arms"])
            if "StreamOp::FollowedBy" in pats and any(x.get("k") == "mcall" and x["method"] == "any" for x in H.walk(s_["init"])):
                flags.add(s_["pat"]["name"])
    if not flags:
        ctx.anchor_lost("source-types", "no `has sequence operations` flag (ops.iter().any(matches FollowedBy|Not|Within)) found in compile_ops_with_sequences")
        return
    ms = [m for m in H.matches_on(h["body"], lambda t: t.endswith("ast::StreamSource")) if any("StreamSource::Sequence" in H.pat_str(a["pat"]) for a in m["arms"])]
    if not ms:
        ctx.anchor_lost("source-types", "the match over StreamSource that collects the source's event types was not found")
        return
    n = 0
    for a in ms[0]["arms"]:
        ps = H.pat_str(a["pat"])
        heads = [v for v in ("Ident", "IdentWithAlias", "AllWithAlias") if ("StreamSource::%s(" % v) in ps or ("StreamSource::%s{" % v) in ps]
        if not heads:
            continue
        pushes = [x for x in H.walk(a["body"]) if x.get("k") == "mcall" and x["method"] == "push"]
        if not pushes:
            continue
        n += 1
        g = a.get("guard")
        gtxt = H.show(g) if g else ""
        key = "arm:%s" % "|".join(heads)
        # the test may also sit inside the arm: every push of the arm lies in the then-branch of `if <flag>`
        inner = False
        if g is None:
            guarded = []
            for x in H.walk(a["body"]):
                if x.get("k") == "if" and H.local_name(H.strip(x["cond"])) in flags:
                    guarded += [id(y) for y in H.walk(x["then"]) if y.get("k") == "mcall" and y["method"] == "push"]
            inner = bool(pushes) and all(id(p_) in guarded for p_ in pushes)
            if inner:
                gtxt = "if <sequence-ops flag> { .. } inside the arm"
        if inner or g is not None and (H.local_name(H.strip(g)) in flags or "contains_key" in gtxt):
            ctx.ok("source-types", key + (":pattern-ref" if "contains_key" in gtxt else ""), "guarded by `%s`" % gtxt[:40], site=a["sp"])
        else:
            ctx.violation("source-types", key, "the %s source arm resolves the identifier to its underlying event type and adds it to the stream's routes without the sequence-operations test (guard: %s): a plain derived stream over another stream is routed the raw events as well as the upstream's outputs" % ("/".join(heads), gtxt or "none"), site=a["sp"])
    ctx.floor("source-types", "identifier source arms that add route types", n, 3)


def run(ctx):
    ctx.guard("source-types", lambda: run_source_types(ctx))
    F = ctx.facts()
    b = ctx.need_body(ROUTER + "::add_route", rule="route-table")
    pushes = [(bb, t) for bb, t in b.calls() if t["callee"].endswith("Vec::<T, A>::push")]
    ctx.floor("route-table", "push sites in add_route", len(pushes), 1)
    for i, (bb, t) in enumerate(pushes):
        gs = b.guards_of(bb)
        ok = any(g["kind"] == "call" and g["call"]["callee"].endswith("::contains") and g["taken"] == "false" for g in gs) or \
             any("contains(" in g.get("text", "") and ((g["taken"] == "true") == g["text"].startswith("Not(")) for g in gs)
        if ok:
            ctx.ok("route-table", "add_route:push#%d" % (i + 1), "under !contains", site=t["sp"])
        else:
            ctx.violation("route-table", "add_route:push#%d" % (i + 1), "add_route appends the stream without testing that it is not registered for the type already: a stream registered twice processes every event of that type twice", site=t["sp"])
    writers = F.field_accessors(ROUTER, "routes", kinds=("w", "m"))
    for w in sorted(writers):
        if w.endswith(("::add_route", "::clear", "::new")):
            ctx.ok("route-table", "writer:" + w.rsplit("::", 1)[1])
        else:
            ctx.violation("route-table", "writer:" + w, "%s mutates the routing table directly" % w)
    # lookups
    n = 0
    for e in C16.ENTRIES:
        for p in F.bodies_of(e):
            pb = ctx.body(p)
            for bb, t in pb.calls():
                if (t["inst"] or t["callee"]) != ROUTER + "::get_routes":
                    continue
                d = pb.desc(t["args"][1])
                name = e.rsplit("::", 1)[1]
                if "stream_name" in d or d.startswith("sn") or "side" in d:
                    continue  # lookups of a stream's downstream consumers / late-data configuration, not event routing
                n += 1
                if "event_type" in d and ("current_event" in d or "event" in d):
                    ctx.ok("lookup-key", "%s#%d" % (name, n), d[:60], site=t["sp"])
                else:
                    ctx.violation("lookup-key", "%s#%d" % (name, n), "%s looks routes up by `%s`, not by the current event's event_type" % (name, d[:60]), site=t["sp"])
    ctx.floor("lookup-key", "route lookups in the entry points", n, 4)
    ctx.guard("chain-depth", lambda: C16.run_consts(ctx))
    ctx.guard("requeue", lambda: C16.run_routing(ctx))
