"""C03 — Kleene closures: the documented caps (R-GUARD)."""
from vpr.mir import op_place
from vpr.prov import Slicer

EXPLANATION = (
    "R-GUARD on MIR: (a) every KleeneCapture::extend / extend_simple call outside checkpoint restore is reachable only past "
    "the `next_var >= max_events` test (or along the edge on which no capture exists yet); (b) in enumerate_with_filter every "
    "push of a result lies on a loop whose every iteration re-tests `results.len() >= max_results` after the push and leaves "
    "the loop when it holds — so the cap bounds emitted matches, not examined combinations; (c) KleeneLimits is built from "
    "the engine's two configured fields and those fields are written only by the constructor and the two with_* builders."
    " The cap test is strict: an event is accumulated only under next_var < max_events."
)
DECIDED = ["number of Kleene events kept never exceeds max_kleene_events", "number of matches per completion never exceeds max_enumeration_results, and the cap counts emitted matches",
           "the limits used are the configured ones", "the Kleene event cap is not off by one"]
NOT_DECIDED = ["that every admissible subset is produced", "pairwise distinctness of combinations (ZDD semantics, see C06/C07)"]

S = "varpulis_runtime::sase::"
KC = S + "KleeneCapture"


def cmp_blocks(b, a_pat, c_pat):
    """switch blocks testing a relational binop between something matching a_pat and something matching c_pat"""
    out = []
    for bb in sorted(b.live):
        t = b.term(bb)
        if t["k"] != "switch":
            continue
        r = b.chase(t["discr"])
        if r[0] != "binop":
            continue
        st = r[1]
        if st.get("op") not in ("Ge", "Gt", "Lt", "Le", "Eq", "Ne") or len(st["o"]) < 2:
            continue
        l, rr = b.desc(st["o"][0]), b.desc(st["o"][1])
        if (a_pat in l and c_pat in rr) or (a_pat in rr and c_pat in l):
            out.append((bb, st, l, rr))
    return out


def run_event_cap(ctx):
    F = ctx.facts()
    ext = {KC + "::extend", KC + "::extend_simple"}
    n = 0
    callers = set()
    for c in F.calls:
        if (c["inst"] or c["callee"]) in ext:
            callers.add(c["f"])
    for fn in sorted(callers):
        if fn.endswith("::from_checkpoint") or "from_checkpoint" in fn:
            ctx.ok("event-cap", "%s:restore" % fn, "restore replays checkpointed events (bounded by what was checkpointed)")
            continue
        b = ctx.need_body(fn, rule="event-cap")
        cmps = cmp_blocks(b, "next_var", "max_events")
        cmp_bbs = [x[0] for x in cmps]
        # None-edges of `if let Some(kc) = run.kleene_capture`
        none_edges = []
        for bb in sorted(b.live):
            t = b.term(bb)
            if t["k"] == "switch":
                r = b.chase(t["discr"])
                if r[0] == "discr" and "kleene_capture" in b.desc(r[1]["o"][0]):
                    some = {tgt for v, tgt in t["cases"] if v == 1}
                    for tgt in set(b.succs_of(bb)):
                        if tgt not in some:
                            none_edges.append((bb, tgt))
        k = 0
        for bb, t in b.calls():
            if (t["inst"] or t["callee"]) not in ext:
                continue
            n += 1
            k += 1
            key = "%s:%s#%d" % (fn.rsplit("::", 1)[1], (t["inst"] or t["callee"]).rsplit("::", 1)[1], k)
            if not cmps:
                ctx.violation("event-cap", key, "Kleene events are accumulated without any `next_var >= max_events` test in %s" % fn, site=t["sp"])
                continue
            r = b.reachable(0, avoid_blocks=cmp_bbs, avoid_edges=none_edges)
            if bb in r:
                ctx.violation("event-cap", key, "a path reaches this accumulation of a Kleene event without passing the `next_var >= max_events` cap test", site=t["sp"])
                continue
            # the test must send the capped case away from the accumulation: on the edge where next_var >= max holds, bb is unreachable
            sane = False
            for cb, st, l, rr in cmps:
                tt = b.term(cb)
                for y in set(b.succs_of(cb)):
                    if bb not in b.reachable(y, avoid_blocks=[]):
                        sane = True
            # strictness: on every edge of the test from which the accumulation is still reachable, the relation that holds must
            # be next_var < max_events (a `>` test lets the (max_events+1)-th event through)
            NEG = {"Ge": "Lt", "Gt": "Le", "Lt": "Ge", "Le": "Gt", "Eq": "Ne", "Ne": "Eq"}
            MIR = {"Ge": "Le", "Gt": "Lt", "Lt": "Gt", "Le": "Ge", "Eq": "Eq", "Ne": "Ne"}
            loose = None
            for cb, st, l, rr in cmps:
                tt = b.term(cb)
                op = st["op"] if "next_var" in l else MIR[st["op"]]
                false_t = {tgt for v, tgt in tt["cases"] if v == 0}
                for y in set(b.succs_of(cb)):
                    if bb in b.reachable(y, avoid_blocks=[]):
                        rel = NEG[op] if y in false_t else op
                        if rel != "Lt":
                            loose = (rel, tt.get("sp") or t["sp"])
            if not sane:
                ctx.violation("event-cap", key, "the cap test does not branch away from the accumulation", site=t["sp"])
            elif loose:
                ctx.violation("event-cap", key, "a Kleene event is accumulated under `next_var %s max_events`, not under `next_var < max_events`: the capture can grow to max_events + 1 events" % {"Le": "<=", "Ge": ">=", "Gt": ">", "Ne": "!=", "Eq": "=="}.get(loose[0], loose[0]), site=loose[1])
            else:
                ctx.ok("event-cap", key, "past `%s`" % " / ".join("%s %s %s" % (l, st["op"], rr) for _, st, l, rr in cmps[:2]), site=t["sp"])
    ctx.floor("event-cap", "KleeneCapture::extend* call sites", n, 4)


def run_result_cap(ctx):
    fn = S + "enumerate_with_filter"
    b = ctx.need_body(fn, rule="result-cap")
    pushes = [(bb, t) for bb, t in b.calls() if t["callee"].endswith("Vec::<T, A>::push") and "results" in b.desc(t["args"][0])]
    ctx.floor("result-cap", "results.push sites", len(pushes), 2)
    cmps = cmp_blocks(b, "results", "max_results")
    cmps = [c for c in cmps if "len(" in c[2] or "len(" in c[3]]
    cmp_bbs = [c[0] for c in cmps]
    for i, (bb, t) in enumerate(pushes):
        key = "push#%d" % (i + 1)
        if not b.in_loop(bb):
            ctx.ok("result-cap", key, "not in a loop (single result)", site=t["sp"])
            continue
        # every way from the push back to itself re-tests the cap
        nxt = b.succ[bb]
        back = any(bb in b.reachable(s, avoid_blocks=cmp_bbs) for s in nxt)
        if back:
            # alternative idiom: the loop iterates over `<enumeration>.take(max_results)`. That bounds the pushes as well,
            # but it is the same cap only if nothing filters between the iterator and the push: with a predicate in
            # between, take() bounds the combinations *examined* and admissible ones beyond them are never reported.
            nexts = [(nb, nt) for nb, nt in b.calls() if nt["callee"].endswith("Iterator::next") and b.dominates(nb, bb) and b.in_loop(nb)]
            capped_iter = None
            for nb, nt in nexts:
                o = Slicer(b).origins([nt["args"][0]])
                tk = [c for c in o.calls if c[0].endswith("Iterator::take")]
                for c in tk:
                    tt = b.term(c[2])
                    if len(tt["args"]) > 1 and "max_results" in b.desc(tt["args"][1]):
                        # the outermost loop header fed by the truncated iterator
                        if capped_iter is None or len(b.dom[nb]) < len(b.dom[capped_iter[0]]):
                            capped_iter = (nb, tt)
            if capped_iter is None:
                ctx.violation("result-cap", key, "a loop iteration can push another match without re-testing `results.len() >= max_results` after the previous push, and the loop is not over a take(max_results) iterator: the number of emitted matches is unbounded", site=t["sp"])
                continue
            nb = capped_iter[0]
            filters = [g for g in b.guards_of(bb) if g["kind"] == "call" and b.dominates(nb, g["sw"]) and not g["call"]["callee"].endswith("Iterator::next")]
            if filters:
                ctx.violation("result-cap", key, "the enumeration is truncated with take(max_results) *before* the filter `%s`: the cap bounds examined combinations, so admissible combinations beyond the first max_results examined ones are never reported" % filters[0]["text"][:80], site=capped_iter[1]["sp"])
            else:
                ctx.ok("result-cap", key, "loop over take(max_results) with no filter between iterator and push", site=t["sp"])
            continue
        # and the test leaves the loop on one side
        leaves = False
        for cb in cmp_bbs:
            for y in set(b.succs_of(cb)):
                if bb not in b.reachable(y):
                    leaves = True
        if not leaves:
            ctx.violation("result-cap", key, "the `results.len()` vs `max_results` test never leaves the enumeration loop", site=t["sp"])
        else:
            ctx.ok("result-cap", key, site=t["sp"])
    ctx.sample({"fn": fn, "pushes": [t["sp"] for _, t in pushes], "cap_tests": ["%s %s %s" % (l, st["op"], r) for _, st, l, r in cmps]})


def run_limits(ctx):
    F = ctx.facts()
    fn = S + "SaseEngine::kleene_limits"
    b = ctx.need_body(fn, rule="limits")
    aggs = [s for bb in sorted(b.live) for s in b.stmts(bb) if s["k"] == "agg" and s.get("agg", "").endswith("sase::KleeneLimits")]
    if len(aggs) != 1:
        ctx.anchor_lost("limits", "kleene_limits: expected one KleeneLimits literal")
        return
    want = {"max_events": "max_kleene_events", "max_results": "max_enumeration_results"}
    for fname, op in zip(aggs[0]["fields"], aggs[0]["o"]):
        d = b.desc(op)
        if want.get(fname) and want[fname] in d and "self" in d:
            ctx.ok("limits", fname, d)
        else:
            ctx.violation("limits", fname, "KleeneLimits.%s is built from `%s`, expected the engine's configured %s" % (fname, d, want.get(fname)), site=aggs[0]["sp"])
    # who builds KleeneLimits at all: kleene_limits and Default only
    makers = {r["f"] for r in F.fieldacc if r["adt"] == S + "KleeneLimits" and r["k"] == "init"}
    for m in sorted(makers):
        if m == fn or m.endswith("KleeneLimits as core::default::Default>::default"):
            ctx.ok("limits", "maker:" + m)
        else:
            ctx.violation("limits", "maker:" + m, "%s constructs KleeneLimits itself instead of using the engine's configured limits" % m)
    # callers of the run-advance functions pass the engine's limits
    for field, ok_writers in (("max_kleene_events", ("with_max_kleene_events", "SaseEngine::new")), ("max_enumeration_results", ("with_max_enumeration_results", "SaseEngine::new"))):
        ws = F.field_accessors(S + "SaseEngine", field, kinds=("w", "m"))
        for w in ws:
            if w.endswith(ok_writers):
                ctx.ok("limits", "writer:%s:%s" % (field, w.rsplit("::", 1)[1]))
            else:
                ctx.violation("limits", "writer:%s:%s" % (field, w), "%s writes the configured cap %s" % (w, field))
    # run loops obtain `limits` from kleene_limits()
    for loop in (S + "SaseEngine::process_runs_shared", S + "SaseEngine::process_partition_shared"):
        lb = ctx.need_body(loop, rule="limits")
        adv = [(bb, t) for bb, t in lb.calls() if (t["inst"] or t["callee"]) == S + "advance_run_shared"]
        for bb, t in adv:
            d = lb.desc(t["args"][4]) if len(t["args"]) > 4 else "?"
            if "kleene_limits" in d or d == "limits":
                # `limits` local must come from kleene_limits()
                ls = lb.locals_named("limits")
                from_kl = any(dd[0] == "call" and dd[2]["callee"].endswith("kleene_limits") for l in ls for dd in lb.defs.get(l, ()))
                if from_kl or "kleene_limits" in d:
                    ctx.ok("limits", "arg:" + loop.rsplit("::", 1)[1])
                    continue
            ctx.violation("limits", "arg:" + loop.rsplit("::", 1)[1], "advance_run_shared is called with limits `%s` not obtained from kleene_limits()" % d, site=t["sp"])


def run(ctx):
    ctx.guard("event-cap", lambda: run_event_cap(ctx))
    ctx.guard("result-cap", lambda: run_result_cap(ctx))
    ctx.guard("limits", lambda: run_limits(ctx))
