"""C27 — coordinated checkpoints form a consistent cut (protocol guards, marker rule)."""
from vpr.facts import root_fn
from vpr.guards import comparison_guards

EXPLANATION = (
    "(a) R-GUARD on MIR of CheckpointCoordinator: receive_ack stores an ack only past the checkpoint-id comparison with the "
    "pending checkpoint, assembles the Checkpoint only under acks.len() == context_names.len(), and initiate refuses while a "
    "checkpoint is pending; (b) marker rule (Chandy-Lamport): contexts exchange events over channels that hold in-flight "
    "messages, so per-context snapshots taken when each context sees its own barrier form a consistent cut only if the "
    "barrier is also forwarded on every outgoing cross-context channel (so the receiver can separate pre- from "
    "post-snapshot events), or channel contents are recorded, or the contexts are quiesced. R-REACH: the barrier handler "
    "(ContextRuntime::handle_checkpoint_barrier and the barrier arm of run) must reach a send of "
    "ContextMessage::CheckpointBarrier on the context senders, or a drain / capture of the inbound channel, or a global "
    "pause; the only constructor of barriers sent on context channels must otherwise be the coordinator."
)
DECIDED = ["ack assembly guards of the coordinator", "whether in-flight cross-context events are accounted for by the barrier protocol",
           "a checkpoint id that went out on a barrier is never reused by a later round"]
NOT_DECIDED = ["the interleavings themselves", "replay of unconsumed inputs"]

C = "varpulis_runtime::context::"
COORD = C + "CheckpointCoordinator"


def run_guards(ctx):
    b = ctx.need_body(COORD + "::receive_ack", rule="ack-guards")
    ins = [(bb, t) for bb, t in b.calls() if t["callee"].endswith("::insert") and "acks" in b.desc(t["args"][0])]
    ctx.floor("ack-guards", "acks.insert sites", len(ins), 1)
    for bb, t in ins:
        nfs = [nf for nf, g in comparison_guards(b, bb)]
        idok = [nf for nf in nfs if nf[0] == "==" and "checkpoint_id" in nf[1] and "checkpoint_id" in nf[2]]
        if idok:
            ctx.ok("ack-guards", "id-match", "%s == %s" % (idok[0][1], idok[0][2]), site=t["sp"])
        else:
            ctx.violation("ack-guards", "id-match", "an ack is stored without comparing its checkpoint id with the pending one (guards %s): a late ack of an older checkpoint completes a newer one" % nfs, site=t["sp"])
    # completion: Checkpoint literal / pending.take under len == len
    done = [(bb, s) for bb in sorted(b.live) for s in b.stmts(bb) if s["k"] == "agg" and s.get("agg", "").endswith("persistence::Checkpoint")]
    ctx.floor("ack-guards", "Checkpoint assembly sites", len(done), 1)
    for bb, s in done:
        nfs = [nf for nf, g in comparison_guards(b, bb)]
        ok = [nf for nf in nfs if nf[0] == "==" and "len(" in nf[1] and "len(" in nf[2] and ("acks" in nf[1] + nf[2]) and ("context_names" in nf[1] + nf[2])]
        if ok:
            ctx.ok("ack-guards", "all-acked", "%s == %s" % (ok[0][1], ok[0][2]), site=s["sp"])
        else:
            ctx.violation("ack-guards", "all-acked", "the coordinated checkpoint is assembled without acks.len() == context_names.len() (guards %s): it can complete before every context has snapshotted" % nfs, site=s["sp"])
    ib = ctx.need_body(COORD + "::initiate", rule="ack-guards")
    sends = [bb for bb, t in ib.calls() if t["callee"].endswith("::try_send") or t["callee"].endswith("Sender::<T>::send")]
    ok = False
    for sb in sends:
        for g in ib.guards_of(sb):
            if "pending" in g.get("text", "") and ((g["kind"] == "call" and g["call"]["callee"].endswith("::is_some") and g["taken"] == "false") or (g["kind"] == "discr" and g["taken"] in ([0],))):
                ok = True
    if sends and ok:
        ctx.ok("ack-guards", "one-at-a-time", "barriers are sent only when no checkpoint is pending")
    else:
        ctx.violation("ack-guards", "one-at-a-time", "initiate sends barriers without checking that no checkpoint is pending: two interleaved barrier rounds mix acks", site=ib.js["span"])


def run_fresh_id(ctx):
    """acks are matched to a round by checkpoint id only, so an id that went out on a barrier must never be reused: on every
    path of initiate() a barrier send is either preceded by the increment of next_checkpoint_id or followed by it before the
    function returns (an early return between a send and the increment lets the retry reuse the id, and a stale ack of the
    abandoned round completes the new one with an old snapshot)"""
    ib = ctx.need_body(COORD + "::initiate", rule="fresh-id")
    sends = [(bb, t) for bb, t in ib.calls() if t["callee"].endswith("::try_send") or t["callee"].endswith("Sender::<T>::send")]
    incs = []
    for bb in sorted(ib.live):
        for s in ib.stmts(bb):
            p = s["d"]["p"]
            if p and isinstance(p[-1], dict) and p[-1].get("f") == "next_checkpoint_id":
                incs.append(bb)
    ctx.floor("fresh-id", "barrier sends in initiate", len(sends), 1)
    if not incs:
        ctx.violation("fresh-id", "id-consumed", "initiate never advances next_checkpoint_id: every round reuses the same id", site=ib.js["span"])
        return
    for bb, t in sends:
        before = any(ib.dominates(w, bb) for w in incs)
        rets = ib.return_blocks()
        after = not any(r in ib.reachable(bb, avoid_blocks=incs) for r in rets if r != bb)
        if before or after:
            ctx.ok("fresh-id", "id-consumed", "the id is consumed %s the barrier is sent" % ("before" if before else "on every path after"), site=t["sp"])
        else:
            ctx.violation("fresh-id", "id-consumed", "initiate can return after a barrier with id N went out without advancing next_checkpoint_id: the next round reuses N, receive_ack accepts the abandoned round's ack, and the checkpoint is assembled from snapshots of two different cuts", site=t["sp"])


def run_marker(ctx):
    F = ctx.facts()
    cg = ctx.cg()
    # who constructs barriers
    makers = {root_fn(r["f"]) for r in F.fieldacc if r["adt"] == C + "ContextMessage::CheckpointBarrier" and r["k"] == "init"}
    makers = {m for m in makers if not m.startswith("<")}  # derived Clone / Debug impls rebuild the variant, they do not originate barriers
    handler = C + "ContextRuntime::handle_checkpoint_barrier"
    if F.mir(handler + "::{closure#0}") is None and F.mir(handler) is None:
        ctx.anchor_lost("marker", "handle_checkpoint_barrier not found")
        return
    reach = cg.reach(handler, within=lambda f: f.startswith("varpulis_runtime::context"))
    forwards = handler in makers or any(m in reach for m in makers if m != COORD + "::initiate")
    # channel-state capture / quiescence: the handler drains its inbound channel or the engine output before snapshotting
    hb = ctx.body(handler + "::{closure#0}") or ctx.body(handler)
    drains = [t for _, t in hb.calls() if t["callee"].endswith(("::try_recv", "::recv", "drain_and_route_output"))]
    ctx.sample({"barrier_constructors": sorted(makers), "handler_forwards_barrier": forwards, "handler_drains_channels": len(drains)})
    if forwards or drains:
        ctx.ok("marker", "in-flight-events", "barrier forwarded / channel state captured")
    else:
        ctx.violation("marker", "in-flight-events", "handle_checkpoint_barrier snapshots the engine and acks, but neither forwards the barrier on the outgoing cross-context channels nor captures / drains the in-flight messages: an event emitted by context A before its snapshot and consumed by context B after B's snapshot is in neither state (lost on restore), and one consumed before B's snapshot but emitted after A's is in both (duplicated)", site=hb.js["span"])
    if makers <= {COORD + "::initiate", handler}:
        ctx.ok("marker", "barrier-origin", sorted(makers))
    else:
        ctx.violation("marker", "barrier-origin", "barriers are constructed outside the coordinator / the forwarding handler: %s" % sorted(makers))


def run(ctx):
    ctx.guard("ack-guards", lambda: run_guards(ctx))
    ctx.guard("fresh-id", lambda: run_fresh_id(ctx))
    ctx.guard("marker", lambda: run_marker(ctx))
