"""C16 — all event-processing entry points produce the same outputs (R-REACH entry agreement, sibling constants, output routing)."""
from vpr import hirq as H
from vpr.prov import Slicer

EXPLANATION = (
    "(a) R-REACH over the call graph: the four engine entry points (process_inner, process_batch, process_batch_sync, "
    "process_batch_shared) must reach the same set of operator kernels (join buffer, SASE engine, window adds, aggregators, "
    "Hamlet aggregator, watermark tracker / late-data gate) — an entry that never reaches a kernel cannot produce that "
    "operator's outputs for any input; (b) the four function-local MAX_CHAIN_DEPTH constants are equal (HIR const bodies); "
    "(c) on MIR: in every entry point a stream's output events are queued for dependent streams / sent as outputs only in "
    "their renamed form — in the sync path the queueing is guarded by skip_rename == false and skip_rename depends on the "
    "stream's operations (a `.process()` stream's outputs are themselves outputs)."
)
DECIDED = ["each entry point reaches each operator kernel or none does", "chain depth limits agree", "un-renamed outputs are never queued for routing", "all entry points decide the forwarding of a .process() stream's outputs from the current result's own emissions"]
NOT_DECIDED = ["equality of outputs inside the shared kernels", "order of outputs across batch boundaries"]

E = "varpulis_runtime::engine::Engine::"
ENTRIES = [E + "process_inner", E + "process_batch", E + "process_batch_sync", E + "process_batch_shared"]
R = "varpulis_runtime::"
KERNELS = {
    "join": [R + "join::JoinBuffer::add_event"],
    "sase": [R + "sase::SaseEngine::process_shared", R + "sase::SaseEngine::process"],
    "tumbling": [R + "window::TumblingWindow::add_shared"],
    "sliding": [R + "window::SlidingWindow::add_shared"],
    "count": [R + "window::CountWindow::add_shared"],
    "sliding-count": [R + "window::SlidingCountWindow::add_shared"],
    "session": [R + "window::SessionWindow::add_shared"],
    "aggregate": [R + "aggregation::Aggregator::apply_shared", R + "aggregation::Aggregator::apply_columnar", R + "aggregation::Aggregator::apply"],
    "hamlet": [R + "hamlet::aggregator::HamletAggregator::process"],
    "watermark-observe": [R + "watermark::PerSourceWatermarkTracker::observe_event"],
    "late-data-gate": [R + "watermark::PerSourceWatermarkTracker::effective_watermark"],
}


def run_reach(ctx):
    F = ctx.facts()
    cg = ctx.cg()
    reach = {}
    for e in ENTRIES:
        if F.mir(e) is None:
            ctx.anchor_lost("entry-reach", "entry point %s not found" % e)
            return
        reach[e] = cg.reach(e, within=lambda f: f.startswith(R) or f.startswith("<" + R))
    for k, fns in KERNELS.items():
        present = [f for f in fns if F.mir(f) is not None]
        if not present:
            ctx.anchor_lost("entry-reach", "kernel %s: none of %s found" % (k, fns))
            continue
        who = {e.rsplit("::", 1)[1]: any(f in reach[e] for f in present) for e in ENTRIES}
        if all(who.values()):
            ctx.ok("entry-reach", k, "reached by all four entry points")
        elif not any(who.values()):
            ctx.anchor_lost("entry-reach", "kernel %s is reached by no entry point (call graph incomplete?)" % k)
        else:
            for name, r in sorted(who.items()):
                if not r:
                    ctx.violation("entry-reach", "%s:%s" % (k, name), "entry point %s never reaches the %s kernel (%s) that %s reach: programs using that operator behave differently on this path" % (
                        name, k, present[0].rsplit("::", 2)[-2] + "::" + present[0].rsplit("::", 1)[1], sorted(n for n, v in who.items() if v)))
        ctx.sample({"kernel": k, "reached_by": who})


def run_consts(ctx):
    F = ctx.facts()
    vals = {}
    for p in F.find_fns(r"^varpulis_runtime::engine::Engine::process_[a-z_]+(::\{closure#0\})?::MAX_CHAIN_DEPTH$", "hir"):
        h = F.hir(p)
        b = H.strip(h["body"])
        vals[p] = b["v"]["v"] if b.get("k") == "lit" else H.show(b)
    ctx.floor("chain-depth", "function-local MAX_CHAIN_DEPTH constants", len(vals), 4)
    if len(set(vals.values())) == 1:
        for p in vals:
            ctx.ok("chain-depth", p.split("Engine::")[1].split("::")[0], "= %s" % list(vals.values())[0])
    else:
        for p, v in vals.items():
            ctx.violation("chain-depth", p.split("Engine::")[1].split("::")[0], "MAX_CHAIN_DEPTH = %s here; the entry points use %s" % (v, sorted(set(vals.values()))))
    ctx.sample({"MAX_CHAIN_DEPTH": {p.split("Engine::")[1].split("::")[0]: v for p, v in vals.items()}})


def run_routing(ctx):
    F = ctx.facts()
    b = ctx.need_body(E + "process_batch_sync", rule="requeue")
    pushes = [(bb, t) for bb, t in b.calls() if t["callee"].endswith("VecDeque::<T, A>::push_back") and b.in_loop(bb)]
    # the rename-skipped flag is found by role: the bool handed to process_stream_sync as its last argument
    pss = [t for _, t in b.calls() if (t["inst"] or t["callee"]) == E + "process_stream_sync"]
    if not pss or not pss[0]["atys"] or pss[0]["atys"][-1] != "bool":
        ctx.anchor_lost("requeue", "process_batch_sync: call of process_stream_sync(.., skip_rename: bool) not found")
        return
    flag = b.desc(pss[0]["args"][-1])
    n = 0
    for bb, t in pushes:
        o = Slicer(b).origins([t["args"][1]])
        if not any(f[1] == "output_events" for f in o.fields):
            continue
        n += 1
        gs = b.guards_of(bb)
        ok = any(g.get("text", "").replace("Not(", "").rstrip(")") == flag and ((g["taken"] == "false") != g.get("text", "").startswith("Not(")) for g in gs)
        if ok:
            ctx.ok("requeue", "process_batch_sync#%d" % n, "queued only when the outputs were renamed", site=t["sp"])
        else:
            ctx.violation("requeue", "process_batch_sync#%d" % n, "process_batch_sync queues a stream's outputs for routing even when their rename was skipped: they keep the input's event type and are routed back to every stream consuming it (guards: %s)" % [g.get("text", "")[:40] for g in gs][-4:], site=t["sp"])
    ctx.floor("requeue", "output requeue sites in process_batch_sync", n, 1)
    # skip_rename depends on the stream's operations (Process outputs are outputs)
    ls = b.locals_named(flag)
    if not ls:
        ctx.anchor_lost("requeue", "the rename-skipped flag `%s` is not a plain local of process_batch_sync (unrecognised shape)" % flag)
    else:
        o = Slicer(b).origins(ls)
        if any(f[1] == "operations" for f in o.fields):
            ctx.ok("requeue", "skip-rename-depends-on-ops")
        else:
            ctx.violation("requeue", "skip-rename-depends-on-ops", "skip_rename is decided from the routing table only: a `.process()` stream without `.emit()` sends its un-renamed outputs to the output channel, with another event type than on the async paths", site=b.js["span"])
    # the async pipelines always rename: execute_pipeline's rename is not optional there
    for fn in F.find_fns(r"^varpulis_runtime::engine::pipeline::execute_pipeline(::\{closure#0\})?$"):
        pb = ctx.body(fn)
        if pb is None:
            continue
        ctx.ok("requeue", "async-pipeline-present", nontrivial=False)


def merge_gate_semantics(h):
    """how a per-stream entry decides whether an event passes a Merge source: 'any' (accepted if some source of the event's
    type passes its filter), 'first' (only the first source of that type is consulted), or None (no merge gate)"""
    for x in H.walk(h["body"]):
        if x.get("k") == "if" and H.strip(x["cond"]).get("k") == "letcond":
            pat = H.strip(x["cond"])["pat"]
            if "RuntimeSource::Merge" not in H.pat_str(pat):
                continue
            blk = x["then"]
            loops = [y for y in H.walk(blk) if y.get("k") == "for"]
            flagged = [a for f in loops for a in H.walk(f["body"]) if a.get("k") == "assign" and H.show(a["r"]) == "true"]
            meths = [y["method"] for y in H.walk(blk) if y.get("k") == "mcall"]
            if loops and flagged:
                return "any", x["sp"]
            if "any" in meths and "find" not in meths:
                return "any", x["sp"]
            if any(m in meths for m in ("find", "position", "next", "first", "find_map")):
                return "first", x["sp"]
            return "?", x["sp"]
    return None, None


def run_merge_gate(ctx):
    F = ctx.facts()
    sibs = {"process_stream_with_functions (async paths)": E + "process_stream_with_functions", "process_stream_sync (sync batch path)": E + "process_stream_sync"}
    got = {}
    for label, fn in sibs.items():
        h = ctx.need_hir(fn, rule="merge-gate")
        got[label] = merge_gate_semantics(h)
    vals = {v[0] for v in got.values()}
    for label, (sem, sp) in got.items():
        key = label.split(" ")[0]
        if sem is None:
            ctx.violation("merge-gate", key, "%s has no gate for RuntimeSource::Merge while its sibling has: merged streams accept different events on the two paths" % label)
        elif sem != "any":
            ctx.violation("merge-gate", key, "%s consults %s for a merged stream; the sibling entry accepts an event when ANY merge source of its type passes its filter — events passing only a later same-typed source are dropped on this path" % (label, "only the first source of the event's type" if sem == "first" else "sources in an unrecognised way"), site=sp)
        else:
            ctx.ok("merge-gate", key, "accepts if any same-typed merge source passes", site=sp)
    ctx.sample({"merge_gate": {k: v[0] for k, v in got.items()}})


SPR = "varpulis_runtime::engine::types::StreamProcessResult"


def run_process_outputs(ctx):
    """sibling agreement on WHEN a `.process()` stream's output_events are themselves sent to the output channel: in every entry
    point the decision is `<this result emitted nothing> && <the stream has a Process op>` — the emptiness test must be on the
    CURRENT result's emitted_events. A test on a batch-wide accumulator (filled by earlier streams / events of the same call)
    drops the outputs of every `.process()` stream that comes after the first emission of the batch, on that path only."""
    F = ctx.facts()
    n = 0
    for e in ENTRIES:
        name = e.rsplit("::", 1)[1]
        found = []
        for p in F.bodies_of(e):
            h = F.hir(p)
            if not h:
                continue
            lets = {s_["pat"]["name"]: s_["init"] for s_ in H.lets(h["body"]) if s_["pat"]["k"] == "bind" and s_.get("init") is not None}

            def has_process(x):
                return any(m.get("k") == "match" and any("RuntimeOp::Process" in H.pat_str(a["pat"]) for a in m["arms"]) for m in H.walk(x))

            def emptiness_receivers(x, depth=0):
                out = []
                for y in H.walk(x):
                    if y.get("k") == "mcall" and y["method"] == "is_empty":
                        out.append(H.show(y["recv"]))
                    elif y.get("k") == "path" and depth < 2:
                        nm = H.local_name(y)
                        if nm in lets and not has_process(lets[nm]):
                            out += emptiness_receivers(lets[nm], depth + 1)
                return out
            for x in H.walk(h["body"]):
                if x.get("k") == "bin" and x["op"] == "And":
                    l_p, r_p = has_process(x["l"]), has_process(x["r"])
                    if l_p != r_p:
                        other = x["r"] if l_p else x["l"]
                        recv = emptiness_receivers(other)
                        if recv:
                            found.append((recv, x["sp"]))
        if not found:
            ctx.anchor_lost("process-outputs", "%s: the `emitted nothing && has a Process op` decision was not found" % name)
            continue
        for recv, sp in found:
            n += 1
            key = "%s:own-result" % name
            if all("emitted_events" in r for r in recv):
                ctx.ok("process-outputs", key, "decided by %s.is_empty()" % recv[0], site=sp)
            else:
                ctx.violation("process-outputs", key, "%s decides whether a `.process()` stream's outputs are sent to the output channel from `%s.is_empty()`, not from the current result's emitted_events: with a batch-wide accumulator the outputs of every such stream after the batch's first emission are dropped on this path, while the other entry points send them" % (
                    name, [r for r in recv if "emitted_events" not in r][0]), site=sp)
    ctx.floor("process-outputs", "`emitted nothing && Process op` decisions", n, 4)


def run(ctx):
    ctx.guard("process-outputs", lambda: run_process_outputs(ctx))
    ctx.guard("merge-gate", lambda: run_merge_gate(ctx))
    ctx.guard("entry-reach", lambda: run_reach(ctx))
    ctx.guard("chain-depth", lambda: run_consts(ctx))
    ctx.guard("requeue", lambda: run_routing(ctx))
