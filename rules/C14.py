"""C14 — aggregates equal their definitions on every path (R-COMUT on ColumnarBuffer, sibling path agreement)."""
from vpr.facts import root_fn

EXPLANATION = (
    "(a) R-COMUT on MIR: every method of ColumnarBuffer that mutates `events` also mutates `timestamps` and invalidates the "
    "lazily built `columns` cache on every path to its return (a path on which the cache is known empty counts as "
    "invalidated) — a stale column is exactly a divergence between the columnar and the row/shared aggregation paths; "
    "(b) sibling agreement over the call graph: for each AggregateFunc implementor, the row (apply), shared (apply_refs) and "
    "columnar (apply_columnar) implementations that it overrides agree on the treatment of NaN (reach f64::is_nan or not) "
    "and read the field through the same accessor family; paths it does not override inherit the trait's delegating "
    "defaults (checked to delegate)."
)
DECIDED = ["the columnar cache can never outlive a change of the buffered events", "NaN filtering agrees between the overridden paths of each aggregate", "trait defaults delegate to the overridden paths"]
NOT_DECIDED = ["numeric results", "documented handling of missing / non-numeric values beyond the shared accessor"]

R = "varpulis_runtime::"
CB = R + "columnar::ColumnarBuffer"
TRAIT = R + "aggregation::AggregateFunc::"
BUILDERS = ("::new", "::with_capacity", "::from_events", "::default")


def blocks_touching(b, adt, field, kinds=("w", "m")):
    out = []
    for bb in sorted(b.live):
        hit = False
        for s in b.stmts(bb):
            for pl in [s["d"]] + [o.get("c") or o.get("m") for o in s["o"] if (o.get("c") or o.get("m"))]:
                for e in pl["p"]:
                    if isinstance(e, dict) and e.get("f") == field and e.get("a") == adt:
                        if pl is s["d"] or (s["k"] == "ref" and s.get("mut")):
                            hit = True
        if hit:
            out.append(bb)
    return out


def run_comut(ctx):
    F = ctx.facts()
    muts = F.field_accessors(CB, "events", kinds=("w", "m"))
    ctx.floor("comut", "functions mutating ColumnarBuffer.events", len(muts), 4)
    for fn in sorted(muts):
        if fn.endswith(BUILDERS):
            ctx.ok("comut", fn.rsplit("::", 1)[1] + ":builder", "constructs the whole buffer", nontrivial=False)
            continue
        b = ctx.need_body(fn, rule="comut")
        name = fn.rsplit("::", 1)[1]
        ev_blocks = blocks_touching(b, CB, "events")
        # timestamps
        ts_blocks = blocks_touching(b, CB, "timestamps")
        if not ts_blocks or b.must_pass_through(ts_blocks):
            ctx.violation("comut", name + ":timestamps", "%s changes the buffered events but a path does not update `timestamps`: the eager timestamp column no longer lines up with the events" % name, site=b.js["span"])
        else:
            ctx.ok("comut", name + ":timestamps")
        # columns cache
        clears = [bb for bb, t in b.calls() if t["callee"].endswith("::clear") and t["args"] and b.desc(t["args"][0]).endswith(".columns")]
        assigns = [bb for bb in blocks_touching(b, CB, "columns", kinds=("w",)) ]
        known_empty_edges = []
        for bb in sorted(b.live):
            t = b.term(bb)
            if t["k"] == "switch":
                r = b.chase(t["discr"])
                # `if !self.columns.is_empty()`: discr is Not(is_empty(..)) or is_empty(..) directly
                txt = b.desc(t["discr"])
                if "is_empty(" in txt and ".columns" in txt:
                    neg = txt.startswith("Not(")
                    for v, tgt in t["cases"]:
                        # case value 0 = condition false
                        cond_false_target = tgt if v == 0 else None
                        if cond_false_target is not None:
                            if neg:
                                known_empty_edges.append((bb, cond_false_target))  # !is_empty false -> empty
                            else:
                                known_empty_edges.append((bb, t["otherwise"]))  # is_empty true -> empty
        inval = set(clears) | set(assigns)
        r = b.reachable(0, avoid_blocks=inval, avoid_edges=known_empty_edges)
        left = [x for x in b.return_blocks() if x in r]
        if left:
            ctx.violation("comut", name + ":columns", "%s changes the buffered events but a path to its return keeps the cached columns: the columnar aggregation path then reads stale data while the row path reads the new events" % name, site=b.js["span"])
        else:
            ctx.ok("comut", name + ":columns", "%d clear site(s)%s" % (len(clears), ", cache-known-empty edge honoured" if known_empty_edges else ""))
            ctx.sample({"fn": name, "invalidates_columns_at": [b.term(x)["sp"] for x in clears][:3]})


def features(ctx, cg, F, fn):
    reach = cg.reach(fn, within=lambda f: f.startswith(R + "aggregation::") or f.startswith(R + "simd::") or f.startswith(R + "columnar::") or f.startswith("<" + R))
    nan = acc = False
    for f in reach:
        if not (f.startswith(R) or f.startswith("<" + R)):
            continue
        for c in F.calls_from(f):
            tgt = c["inst"] or c["callee"]
            if tgt.endswith("f64>::is_nan") or tgt.endswith("::is_nan"):
                nan = True
            if tgt.endswith("Event::get_float") or tgt.endswith("ensure_float_column"):
                acc = True
    return nan, acc


def run_paths(ctx):
    F = ctx.facts()
    cg = ctx.cg()
    impls = {}
    for m in ("apply", "apply_refs", "apply_columnar", "apply_shared"):
        for p in F.impls.get(TRAIT + m, []):
            it = F.fn_item(p)
            impls.setdefault(it["self_ty"], {})[m] = p
    ctx.floor("paths", "AggregateFunc implementors", len(impls), 8)
    numeric = 0
    for ty, ms in sorted(impls.items()):
        feats = {m: features(ctx, cg, F, p) for m, p in ms.items()}
        name = ty.rsplit("::", 1)[1]
        if not any(a for _, a in feats.values()):
            ctx.ok("paths", name, "no float field access (count/first/last/expr)", nontrivial=False)
            continue
        numeric += 1
        nan_vals = {m: n for m, (n, a) in feats.items()}
        if len(set(nan_vals.values())) > 1:
            ctx.violation("paths", name + ":nan", "%s: NaN filtering differs between execution paths: %s" % (name, {m: ("filters NaN" if v else "keeps NaN") for m, v in nan_vals.items()}), site=F.fn_item(list(ms.values())[0])["span"])
        else:
            ctx.ok("paths", name + ":nan", str(nan_vals))
        ctx.sample({"aggregate": name, "paths": {m: {"nan_filter": n, "float_access": a} for m, (n, a) in feats.items()}})
    ctx.floor("paths", "numeric aggregates compared", numeric, 5)
    # trait defaults delegate
    for m, target in (("apply_shared", "apply_refs"), ("apply_refs", "apply"), ("apply_columnar", "apply_shared")):
        calls = {c["callee"] for c in F.calls_from(TRAIT + m)}
        if TRAIT + target in calls:
            ctx.ok("paths", "default:" + m)
        else:
            ctx.violation("paths", "default:" + m, "the trait default of %s no longer delegates to %s" % (m, target))


def run(ctx):
    ctx.guard("comut", lambda: run_comut(ctx))
    ctx.guard("paths", lambda: run_paths(ctx))
