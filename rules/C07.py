"""C07 — canonical ZDDs; GC preserves live families (R-REACH who-may-write, R-GUARD, R-COMUT)."""
from vpr.prov import Slicer

EXPLANATION = (
    "(a) who-may-write on the field access index: UniqueTable.nodes / .index are mutated only by get_or_create and clear; "
    "in get_or_create (MIR) the node push is edge-dominated by the zero-suppression test (hi == Empty -> return lo) being "
    "false and by the hash-consing lookup missing, and index.insert is paired with the push. (c) R-COMUT on ZddArena: every "
    "function that replaces `table` clears, on every path to its return, every field keyed by ZddRef (the operation caches), "
    "and the handles gc returns derive from remap_to_new_table. A cache kept across a table replacement maps renumbered ids "
    "to unrelated nodes for every later operation."
)
DECIDED = ["only get_or_create creates nodes, under zero-suppression and hash-consing", "every table replacement clears every ZddRef-keyed cache on all paths", "gc returns remapped handles"]
NOT_DECIDED = ["strictly increasing variables along paths (needs an inductive argument about operand tops)", "iteration order"]

Z = "varpulis_zdd::"
UT = Z + "table::UniqueTable"
ARENA = Z + "arena::ZddArena"
GOC = UT + "::get_or_create"


def run(ctx):
    F = ctx.facts()
    # ---- (a) who may write nodes / index
    allowed = {GOC, UT + "::clear"}
    for field in ("nodes", "index"):
        acc = F.field_accessors(UT, field, kinds=("w", "m", "wt", "mt"))
        if not acc:
            ctx.anchor_lost("who-writes", "no writer of UniqueTable.%s found" % field)
        for fn, rows in acc.items():
            key = "%s:%s" % (field, fn)
            if fn in allowed:
                ctx.ok("who-writes", key)
            else:
                ctx.violation("who-writes", key, "%s mutates UniqueTable.%s; only get_or_create (under zero-suppression and hash-consing) and clear may" % (fn, field), site=rows[0]["sp"])
    b = ctx.need_body(GOC, rule="node-create")
    pushes = [(bb, t) for bb, t in b.calls() if t["callee"].endswith("Vec::<T, A>::push") and "nodes" in b.desc(t["args"][0])]
    inserts = [(bb, t) for bb, t in b.calls() if t["callee"].endswith("::insert") and "index" in b.desc(t["args"][0])]
    ctx.floor("node-create", "nodes.push sites in get_or_create", len(pushes), 1)
    ctx.floor("node-create", "index.insert sites in get_or_create", len(inserts), 1)
    for bb, t in pushes:
        gs = b.guards_of(bb)
        zs = [g for g in gs if g["kind"] == "call" and g["call"]["callee"].endswith("PartialEq::eq") and "hi" in g["text"] and "Empty" in g["text"] and g["taken"] == "false"]
        hc = [g for g in gs if g["kind"] == "discr" and "get(" in g["text"] and "index" in g["text"]]
        if not zs:
            ctx.violation("node-create", "zero-suppression", "a node is stored without the zero-suppression test `hi == Empty -> return lo` on the path (guards: %s)" % [g["text"][:60] for g in gs], site=t["sp"])
        else:
            ctx.ok("node-create", "zero-suppression", zs[0]["text"], site=t["sp"])
        if not hc:
            ctx.violation("node-create", "hash-consing", "a node is stored without a preceding lookup miss in the index (duplicate nodes break canonicity)", site=t["sp"])
        else:
            ctx.ok("node-create", "hash-consing", hc[0]["text"], site=t["sp"])
        if not any(b.dominates(bb, ib) or b.dominates(ib, bb) for ib, _ in inserts):
            ctx.violation("node-create", "paired-insert", "nodes.push without index.insert on the same path", site=t["sp"])
        else:
            ctx.ok("node-create", "paired-insert", site=t["sp"])
        ctx.sample({"site": t["sp"], "guards": [g["text"][:80] + " = " + str(g["taken"]) for g in gs]})
    # zero-suppression returns lo
    ctx.guard("comut", lambda: run_comut(ctx))


def run_comut(ctx):
    """(c) co-mutation of the arena's table and its ZddRef-keyed caches (shared with C06: operations after gc)"""
    F = ctx.facts()
    fields = F.fields(ARENA)
    if not fields:
        ctx.anchor_lost("comut", "struct ZddArena not found")
        return
    caches = [f["n"] for f in fields if "ZddRef" in f["ty"] and f["n"] != "table"]
    ctx.floor("comut", "ZddRef-keyed fields of ZddArena", len(caches), 4)
    writers = F.field_accessors(ARENA, "table", kinds=("w",))
    ctx.floor("comut", "functions replacing ZddArena.table", len(writers), 1)
    for fn in sorted(writers):
        b = ctx.need_body(fn, rule="comut")
        for c in caches:
            blocks = [bb for bb, t in b.calls() if t["callee"].endswith("::clear") and t["args"] and c in b.desc(t["args"][0])]
            key = "%s:%s" % (fn.rsplit("::", 1)[1], c)
            if not blocks:
                ctx.violation("comut", key, "%s replaces the node table but never clears %s (keyed by node ids of the old table)" % (fn, c), site=writers[fn][0]["sp"])
                continue
            left = b.must_pass_through(blocks)
            if left:
                ctx.violation("comut", key, "%s replaces the node table but a path to its return does not clear %s: stale entries map renumbered ids to unrelated nodes" % (fn, c), site=b.term(blocks[0])["sp"])
            else:
                ctx.ok("comut", key, site=b.term(blocks[0])["sp"])
        # returned handles derive from the remap
        o = Slicer(b).origins([0])
        if fn.endswith("::gc"):
            if o.has_call("::remap_to_new_table") or any("remap_to_new_table" in c for c in o.closures) or closure_calls(F, o, "remap_to_new_table"):
                ctx.ok("comut", "gc-returns-remapped")
            else:
                ctx.violation("comut", "gc-returns-remapped", "gc's returned handles do not derive from remap_to_new_table", site=b.js["span"])
    # remap builds nodes only through get_or_create of the new table
    rb = ctx.need_body(ARENA + "::remap_to_new_table", rule="comut")
    if not rb.call_blocks({GOC}):
        ctx.violation("comut", "remap-via-get_or_create", "remap_to_new_table does not rebuild nodes through get_or_create")
    else:
        ctx.ok("comut", "remap-via-get_or_create")


def closure_calls(F, o, name):
    for c in o.closures:
        for call in F.calls_from(c, nested=True):
            if name in call["callee"]:
                return True
    return False
