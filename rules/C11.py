"""C11 — expression evaluation never panics (R-REC structural recursion + R-ARITH)."""
from vpr import hirq as H
from vpr.arith import sites as arith_sites
from vpr.facts import root_fn

EXPLANATION = (
    "(a) R-REC on type-checked HIR: for every function taking the expression being evaluated (&ast::Expr), every call that "
    "passes that same expression on to another such function is attributed to the Expr variants under which it executes "
    "(enclosing match arms on the parameter); a cycle of such same-expression delegations for one variant is unbounded "
    "mutual recursion (stack overflow abort) for every expression of that variant. (b) R-ARITH on built MIR (overflow checks "
    "on): every i64 operator-trait call / overflow-, division-, negation-assert / panicking i64 API reachable in the "
    "evaluator module must be a checked/wrapping/saturating operation; listed suppressions name one site and a reason."
)
DECIDED = ["no variant of Expr is delegated around a cycle of evaluator functions without being destructured",
           "no panicking i64 arithmetic (+ - * / % neg abs pow) in the evaluator module's functions"]
NOT_DECIDED = ["slice/index panics (usize domain)", "unbounded recursion through user-defined recursive functions",
               "range sizes (excluded by the property)", "unreachable!() reachability"]

EXPR = "varpulis_core::ast::Expr"
MODULE = "varpulis_runtime::engine::evaluator::"

def discharged(b, s):
    """structural discharges (reason string or None)"""
    # `len() as i64 + x` on the `x < 0` branch: 0 <= len <= i64::MAX and i64::MIN <= x <= -1, so the sum is in range
    if s["kind"] == "call" and s["op"] == "Add" and len(s["operands"]) == 2:
        ops = s["operands"]
        for i in (0, 1):
            if ops[i].startswith("cast(call:len") and not ops[1 - i].startswith(("cast", "call", "tmp", "const")):
                for g in b.guards_of(s["bb"]):
                    if g["kind"] == "binop" and g.get("op") == "Lt" and g["l"] == ops[1 - i] and g["r"].startswith("0_") and g["taken"] == "true":
                        return "usize length cast to i64 plus a value tested negative on this path (%s)" % g["text"]
    return None


def expr_param(F, path):
    it = F.fn_item(path)
    h = F.hir(path)
    if not it or not h:
        return None
    for i, (p, ty) in enumerate(zip(h["params"], it["inputs"])):
        if p["k"] == "bind" and ty in ("&" + EXPR,):
            return i, p["name"]
    return None


def run_rec(ctx):
    F = ctx.facts()
    variants = F.variants(EXPR)
    if not variants:
        ctx.anchor_lost("rec", "enum %s not found" % EXPR)
        return
    cands = {}
    for p in F.hir_paths():
        if not p.startswith("varpulis_runtime::") and not p.startswith("varpulis_core::"):
            continue
        ep = expr_param(F, p)
        if ep:
            cands[p] = ep
    ctx.floor("rec", "functions taking &ast::Expr", len(cands), 8)
    allv = set(variants)
    edges = {}  # (F, v) -> set of (G, site)
    n_sites = 0
    for f, (pi, pname) in cands.items():
        h = F.hir(f)

        def visit(e, vs):
            nonlocal n_sites
            if e is None:
                return
            k = e.get("k")
            if k == "match" and H.local_name(e["scrut"]) == pname:
                remaining = set(allv)
                visit(e["scrut"], vs)
                for a in e["arms"]:
                    heads = [H.pat_head(p) for p in H.pat_alts(a["pat"])]
                    if any(hd == "*" for hd in heads):
                        armset = set(remaining)
                    else:
                        armset = {hd.rsplit("::", 1)[1] for hd in heads if isinstance(hd, str) and hd.startswith(EXPR + "::")} & remaining
                    if a["guard"] is not None:
                        visit(a["guard"], vs & armset)
                    visit(a["body"], vs & armset)
                    if a["guard"] is None:
                        remaining -= armset
                return
            if k in ("call", "mcall"):
                d = e["def"] if k == "mcall" else (e["callee"].split(":", 1)[1] if isinstance(e["callee"], str) else None)
                if d in cands:
                    args = ([e["recv"]] + e["args"]) if k == "mcall" else e["args"]
                    gi = cands[d][0]
                    if gi < len(args) and H.local_name(args[gi]) == pname:
                        n_sites += 1
                        for v in vs:
                            edges.setdefault((f, v), set()).add((d, e["sp"]))
            for c in H.children(e):
                visit(c, vs)

        visit(h["body"], set(allv))
    ctx.floor("rec", "same-expression delegation sites", n_sites, 3)
    # cycles per variant
    reported = set()
    for v in variants:
        for f in cands:
            # walk
            seen = []
            cur = f
            stack = [(f, [f])]
            visited = set()
            while stack:
                cur, path = stack.pop()
                for g, sp in edges.get((cur, v), ()):
                    if g == f:
                        cyc = tuple(sorted(set(path)))
                        key = "%s:%s" % ("+".join(c.rsplit("::", 1)[1] for c in cyc), v)
                        if key not in reported:
                            reported.add(key)
                            ctx.violation("rec", key, "Expr::%s is passed unchanged around the cycle %s -> %s: unbounded mutual recursion (stack overflow) for every expression of that variant" % (v, " -> ".join(path), f), site=sp, path=path + [f])
                    elif g not in visited:
                        visited.add(g)
                        stack.append((g, path + [g]))
    if not reported:
        for f in sorted(cands):
            ctx.ok("rec", f, "no same-expression delegation cycle over %d variants" % len(variants))
    ctx.sample({"rule": "rec", "functions": sorted(c.rsplit("::", 1)[1] for c in cands), "delegation_sites": n_sites,
                "edges": sorted("%s[%s]->%s" % (f.rsplit("::", 1)[1], v, g.rsplit("::", 1)[1]) for (f, v), gs in edges.items() for g, _ in gs)[:12]})


def run_arith(ctx):
    F = ctx.facts()
    fns = [p for p in F.mir_paths() if p.startswith(MODULE)]
    ctx.floor("arith", "evaluator module bodies", len(fns), 20)
    n = 0
    counts = {}
    for p in sorted(fns):
        b = ctx.body(p)
        for s in arith_sites(b, types={"i64"}):
            if s["exp"] and s["kind"] != "call":
                pass
            n += 1
            base = "%s:%s:%s:%s:(%s)" % (root_fn(p), s["kind"], s["op"], s["ty"], ",".join(s["operands"]))
            ordinal = counts.get(base, 0)
            counts[base] = ordinal + 1
            key = base if ordinal == 0 else "%s#%d" % (base, ordinal)
            why = discharged(b, s)
            if why:
                ctx.ok("arith", key, "discharged: " + why, site=s["sp"])
                continue
            ctx.violation("arith", key, "panicking i64 %s (%s) on evaluated values: overflows / traps for boundary operands (i64::MIN, i64::MAX, -1)" % (s["op"], s["kind"]), site=s["sp"])
    # positive control: the rule must see checked/wrapping calls where they exist, and at least the suppressed sites
    wr = 0
    for p in fns:
        for c in F.calls_from(p, nested=False):
            if "::wrapping_" in c["callee"] or "::checked_" in c["callee"] or "::saturating_" in c["callee"]:
                wr += 1
    ctx.note("i64 arithmetic sites examined: %d; wrapping/checked/saturating calls in module: %d" % (n, wr))
    ctx.floor("arith", "i64 arithmetic sites + safe-arithmetic calls seen in the evaluator module", n + wr, 6)
    ctx.sample({"rule": "arith", "sites": n, "safe_calls": wr})


def _conjuncts(c):
    c = H.strip(c)
    if c is not None and c.get("k") == "bin" and c["op"] == "And":
        return _conjuncts(c["l"]) + _conjuncts(c["r"])
    return [c] if c is not None else []


def _rel_facts(conds):
    """facts (a <= b) as pairs of normalised operand texts/keys: ('le', A, B) meaning A <= B"""
    out = []
    for c in conds:
        if c.get("k") != "bin" or c["op"] not in ("Le", "Lt", "Ge", "Gt"):
            continue
        a, b = _opkey(c["l"]), _opkey(c["r"])
        if c["op"] in ("Ge", "Gt"):
            a, b = b, a
        out.append((a, b))
    return out


def _opkey(e):
    e = H.strip(e)
    k = H.local_key(e)
    if k:
        return k
    if e.get("k") == "mcall" and e["method"] == "len":
        return "len(%s)" % (_opkey(e["recv"]))
    if e.get("k") == "lit":
        return "lit:%s" % e["v"]["v"]
    return H.show(e)


def run_bounds(ctx):
    """R-BOUNDS: every range slice of a Vec/slice in the evaluator module is guarded, with the *same bindings* it slices by,
    by start <= end and end <= len(container) (or end is bound to min(_, len(container)))."""
    F = ctx.facts()
    n = 0
    counts = {}
    for p in F.hir_paths():
        if not p.startswith(MODULE):
            continue
        h = F.hir(p)
        lets = {}
        for s in H.lets(h["body"]):
            if s["pat"]["k"] == "bind" and s["init"] is not None:
                lets[H.bind_key(s["pat"])] = s["init"]

        def visit(e, facts):
            nonlocal n
            if e is None:
                return
            k = e.get("k")
            if k == "if":
                visit(e["cond"], facts)
                visit(e["then"], facts + _conjuncts(e["cond"]))
                visit(e["else"], facts)
                return
            if k == "mcall" and e["method"] in ("then", "then_some") and e["recv_ty"] == "bool":
                visit(e["recv"], facts)
                for a in e["args"]:
                    visit(a, facts + _conjuncts(e["recv"]))
                return
            if k == "index" and e["ity"].startswith("core::ops::range::Range") and ("alloc::vec::Vec<" in e["ety"] or e["ety"].startswith("&[") or e["ety"].startswith("[")):
                n += 1
                rng = H.strip(e["i"])
                ends = {f["n"]: f["e"] for f in rng["fields"]} if rng.get("k") == "struct" else {}
                cont = _opkey(e["e"])
                rel = _rel_facts(facts)
                base = "%s:%s" % (p.split("::{closure")[0].rsplit("::", 1)[1], H.show(e)[:40])
                counts[base] = counts.get(base, 0) + 1
                key = base if counts[base] == 1 else "%s#%d" % (base, counts[base])
                problems = []
                S = _opkey(ends["start"]) if "start" in ends else None
                E = _opkey(ends["end"]) if "end" in ends else None
                lenc = "len(%s)" % cont

                def bounded(x):
                    if x is None:
                        return True
                    if (x, lenc) in rel:
                        return True
                    init = lets.get(x)
                    if init is not None:
                        i = H.strip(init)
                        if i.get("k") == "mcall" and i["method"] == "min" and any(_opkey(a) == lenc for a in [i["recv"]] + i["args"]):
                            return True
                    if ".min(" in x and lenc.split("#")[0].replace("len(", "").rstrip(")") + ".len()" in x:
                        return True  # inline `e.min(container.len())`
                    return x.startswith("lit:0")
                if S is not None and E is not None and (S, E) not in rel:
                    problems.append("no `start <= end` test on the bindings actually used (%s, %s); known: %s" % (S.split("#")[0], E.split("#")[0], [(a.split("#")[0], b.split("#")[0]) for a, b in rel]))
                if E is not None and not bounded(E):
                    problems.append("end `%s` is not bounded by %s" % (E.split("#")[0], lenc.split("#")[0]))
                if E is None and S is not None and not bounded(S):
                    problems.append("start `%s` is not bounded by %s" % (S.split("#")[0], lenc.split("#")[0]))
                if problems:
                    ctx.violation("bounds", key, "range slice `%s` can panic: %s" % (H.show(e)[:60], "; ".join(problems)), site=e["sp"])
                else:
                    ctx.ok("bounds", key, site=e["sp"])
            for c in H.children(e):
                visit(c, facts)

        visit(h["body"], [])
    ctx.floor("bounds", "range slices of vectors in the evaluator module", n, 3)


def run(ctx):
    ctx.guard("rec", lambda: run_rec(ctx))
    ctx.guard("arith", lambda: run_arith(ctx))
    ctx.guard("bounds", lambda: run_bounds(ctx))
