"""C31 — accepted paths stay inside the work directory (same-value check/return, component-wise prefix, request-derived paths)."""
from vpr.prov import Slicer

EXPLANATION = (
    "On MIR of varpulis_cli::security::validate_path: the value returned in Ok and the receiver of the prefix test are the "
    "same canonicalised local; the prefix test resolves to std::path::Path::starts_with (component-wise), not to a string "
    "prefix test; both operands of the test come out of canonicalize() (symlinks and `..` resolved on both sides); the Ok "
    "is edge-dominated by the test being true. In the server modules (websocket.rs) every file-system call whose path "
    "derives from a request value takes the value returned by validate_path."
)
DECIDED = ["the path that is checked is the path that is returned", "the check is a component-wise prefix test on two canonicalised paths", "request-derived paths reach the file system only through validate_path"]
NOT_DECIDED = ["time-of-check/time-of-use races on the file system", "CLI subcommands reading files named on the command line (not server-accepted paths)"]

VP = "varpulis_cli::security::validate_path"
FS_CALLS = ("std::fs::read_to_string", "std::fs::read", "std::fs::write", "std::fs::File::open", "std::fs::File::create", "std::fs::remove_file",
            "std::fs::read_dir", "std::fs::copy", "std::fs::rename", "tokio::fs::read_to_string", "tokio::fs::read", "tokio::fs::write")


def run(ctx):
    F = ctx.facts()
    b = ctx.need_body(VP, rule="validate")
    tests = [(bb, t) for bb, t in b.calls() if t["callee"].endswith("::starts_with")]
    if not tests:
        ctx.violation("validate", "prefix-test", "validate_path contains no starts_with test", site=b.js["span"])
        return
    bb, t = tests[0]
    if t["callee"] == "std::path::Path::starts_with":
        ctx.ok("validate", "component-wise", t["callee"], site=t["sp"])
    else:
        ctx.violation("validate", "component-wise", "the prefix test is `%s`, not std::path::Path::starts_with: a string prefix accepts /work-evil for /work" % t["callee"], site=t["sp"])
    sl = Slicer(b)
    recv = sl.origins([t["args"][0]])
    arg = sl.origins([t["args"][1]])
    canon = lambda o: o.has_call("::canonicalize")
    if canon(recv) and canon(arg):
        ctx.ok("validate", "both-canonical", site=t["sp"])
    else:
        ctx.violation("validate", "both-canonical", "the prefix test compares paths that are not both canonicalised (receiver %s, argument %s): `..` segments or symlinks defeat it" % (canon(recv), canon(arg)), site=t["sp"])
    # Ok value == tested value, under the test
    oks = [(ob, s) for ob in sorted(b.live) for s in b.stmts(ob) if s["k"] == "agg" and s.get("agg", "").endswith("Result::Ok")]
    ctx.floor("validate", "Ok results in validate_path", len(oks), 1)
    recv_desc = b.desc(t["args"][0])
    recv_root = recv_desc.replace("deref(", "").rstrip(")")
    for ob, s in oks:
        val = b.desc(s["o"][0])
        gs = b.guards_of(ob)
        under = any(g["kind"] == "call" and g["call"]["callee"].endswith("::starts_with") and g["taken"] == "true" for g in gs) or \
            any("starts_with" in g.get("text", "") and ((g["taken"] == "false") == g["text"].startswith("Not(")) for g in gs)
        if not under:
            ctx.violation("validate", "ok-under-test", "validate_path returns Ok on a path not guarded by the prefix test being true", site=s["sp"])
        elif val not in recv_desc and recv_root not in val:
            ctx.violation("validate", "same-value", "validate_path checks `%s` but returns `%s`: the returned path is not the one that was checked" % (recv_desc[:50], val[:50]), site=s["sp"])
        else:
            ctx.ok("validate", "same-value", "checks and returns `%s`" % val[:40], site=s["sp"])
            vo = sl.origins([s["o"][0]])
            if vo.has_call("::canonicalize"):
                ctx.ok("validate", "returns-canonical")
            else:
                ctx.violation("validate", "returns-canonical", "the returned path is not the canonicalised one", site=s["sp"])
    # server modules: request-derived paths
    n = 0
    for p in F.mir_paths():
        if not (p.startswith("varpulis_cli::websocket::") or p.startswith("varpulis_cli::api::")):
            continue
        pb = ctx.body(p)
        for cb, ct in pb.calls():
            if ct["callee"] not in FS_CALLS:
                continue
            d = pb.desc(ct["args"][0]) if ct["args"] else ""
            o = Slicer(pb).origins([ct["args"][0]])
            if any(str(c).startswith('"/proc') or "/proc/" in str(c) for c in o.consts) or (not o.params and not o.upvars and not o.calls):
                continue  # constant path
            n += 1
            key = "%s:%s" % (p.split("::{closure")[0].rsplit("::", 1)[1], ct["callee"].rsplit("::", 1)[1])
            if o.has_call(VP):
                ctx.ok("fs-use", key, "path <- validate_path(..)", site=ct["sp"])
                ctx.sample({"fs_call": ct["callee"], "site": ct["sp"], "path_from": "validate_path"})
            else:
                ctx.violation("fs-use", key, "%s is called in a server module with a path that does not come from validate_path (origins %s)" % (ct["callee"], o.summary()), site=ct["sp"])
    ctx.floor("fs-use", "file-system calls with non-constant paths in the server modules", n, 1)
