"""C37 — acknowledged writes are not lost: the one structural clause (R-LOSSY / R-ORDER on the replication result; cfg raft)."""
import re
from vpr.facts import root_fn

EXPLANATION = (
    "cfg raft, MIR of the async bodies: for every call of openraft's Raft::client_write (and of Coordinator::raft_replicate) "
    "in the API handlers, the coordinator and the CLI health loop, the awaited Result must be examined by a discriminant "
    "switch, and the Err edge must leave the function's normal continuation: no block that performs a call is reachable "
    "both from the Err arm and from the Ok arm (i.e. the error path returns / builds its own error reply and never falls "
    "through to the success reply). A dropped or merely logged replication error lets the handler acknowledge a write that "
    "is not in the replicated log. Agreement under faults is openraft's algorithm plus the network and is not decided."
    " Log-store contract (both stores, cfg raft / persistent): delete_conflict_logs_since removes from log_id.index inclusive (no arithmetic on the bound) and append_to_log overwrites the entry at its index (no vacant-only insert)."
)
DECIDED = ["a failed replication never falls through to the success reply of the handler that issued it", "conflicting log entries are truncated inclusively and appends overwrite"]
NOT_DECIDED = ["consensus safety (openraft)", "message loss / partitions / restarts", "local state changes made before a replication that then fails (reported under C38)"]

WRITE = ("::client_write",)
REPL = "varpulis_cluster::coordinator::Coordinator::raft_replicate"


def result_switches(b, after_bb, ty_pred):
    """switch blocks dominated by after_bb whose discriminant is read from a local whose type satisfies ty_pred"""
    out = []
    for bb in sorted(b.live):
        t = b.term(bb)
        if t["k"] != "switch" or not b.dominates(after_bb, bb):
            continue
        r = b.chase(t["discr"])
        if r[0] != "discr":
            continue
        pl = r[1]["o"][0].get("c") or r[1]["o"][0].get("m")
        if pl is None:
            continue
        ty = b.local_ty(pl["l"])
        if pl["p"]:
            # projection into a Poll<Result<..>> etc.: use the statement's view via desc only
            pass
        if ty_pred(ty) and not pl["p"]:
            out.append((bb, t))
    return out


def run_log_store(ctx):
    """the log store's side of 'acknowledged writes are not lost' (openraft's RaftStorage contract, read off the two stores):
    delete_conflict_logs_since(log_id) removes every entry from log_id.index INCLUSIVE, and append_to_log OVERWRITES the entry at
    its index. If the first conflicting entry survives truncation, or an append keeps the stored copy, a rejoining ex-leader
    keeps its own uncommitted command at that index and applies it in place of the committed one."""
    from vpr import hirq as H
    for cfg, store in (("raft", "store::MemStore"), ("persistent", "persistent_store::RocksStore")):
        F = ctx.facts(cfg)
        base = "<varpulis_cluster::raft::%s as openraft::storage::RaftStorage<varpulis_cluster::raft::TypeConfig>>::" % store
        name = store.rsplit("::", 1)[1]
        # --- truncation bound
        hs = [F.hir(p) for p in F.find_fns("^" + re.escape(base) + r"delete_conflict_logs_since(::\{closure#0\})?$", "hir")]
        hs = [h for h in hs if h]
        if not hs:
            ctx.anchor_lost("log-store", "%s::delete_conflict_logs_since not found (cfg %s)" % (name, cfg))
            continue
        uses = 0
        shifted = None
        for h in hs:
            for x in H.walk(h["body"]):
                if x.get("k") == "field" and x["name"] == "index" and "LogId" in x.get("adt", ""):
                    uses += 1
                if x.get("k") == "bin" and x["op"] in ("Add", "Sub") and any(y.get("k") == "field" and y["name"] == "index" and "LogId" in y.get("adt", "") for y in H.walk(x)):
                    shifted = x
        key = "%s:truncate-inclusive" % name
        if uses == 0:
            ctx.anchor_lost("log-store", "%s::delete_conflict_logs_since does not use log_id.index" % name)
        elif shifted is not None:
            ctx.violation("log-store", key, "%s::delete_conflict_logs_since starts the deletion at `%s`, not at log_id.index: the first conflicting entry stays in the log" % (name, H.show(shifted)), site=shifted["sp"])
        else:
            ctx.ok("log-store", key, "deletes from log_id.index inclusive")
        # --- append overwrites
        ah = [F.hir(p) for p in F.find_fns("^" + re.escape(base) + r"append_to_log(::\{closure#0\})?$", "hir")]
        ah = [h for h in ah if h]
        if not ah:
            ctx.anchor_lost("log-store", "%s::append_to_log not found (cfg %s)" % (name, cfg))
            continue
        meths = [x["method"] for h in ah for x in H.walk(h["body"]) if x.get("k") == "mcall"]
        keep = [m for m in meths if m in ("entry", "or_insert", "or_insert_with", "try_insert", "contains_key")]
        writes = [m for m in meths if m in ("insert", "put", "put_cf")]
        key = "%s:append-overwrites" % name
        if keep:
            ctx.violation("log-store", key, "%s::append_to_log writes an entry only if its index is vacant (%s): after a truncation that left a stale entry — or on any re-append of an index — the leader's entry is dropped and the stored one is applied" % (name, "/".join(sorted(set(keep)))), site=ah[0]["sp"] if "sp" in ah[0] else None)
        elif writes:
            ctx.ok("log-store", key, "unconditional %s" % writes[0])
        else:
            ctx.anchor_lost("log-store", "%s::append_to_log: no map / batch write recognised (%s)" % (name, sorted(set(meths))[:8]))


def run(ctx):
    ctx.guard("log-store", lambda: run_log_store(ctx))
    run_replication(ctx)


def run_replication(ctx):
    F = ctx.facts("raft")
    n = 0
    counts = {}
    for p in F.mir_paths():
        if not (p.startswith("varpulis_cluster::") or p.startswith("varpulis@bin::") or p.startswith("varpulis_cli::")):
            continue
        b = ctx.body(p, "raft")
        for bb, t in b.calls():
            tgt = t["inst"] or t["callee"]
            is_cw = t["callee"].endswith(WRITE) and "openraft" in t["callee"]
            is_rep = tgt == REPL
            if not (is_cw or is_rep):
                continue
            if root_fn(p) == REPL:
                # raft_replicate itself: the error is mapped and propagated with `?`
                n += 1
                used = any(tt["callee"].endswith("::map_err") for _, tt in b.calls())
                if used:
                    ctx.ok("replication-result", "raft_replicate", "error mapped and propagated")
                else:
                    ctx.violation("replication-result", "raft_replicate", "raft_replicate does not propagate the client_write error", site=t["sp"])
                continue
            n += 1
            fn = root_fn(p).rsplit("::", 1)[1]
            if not fn.startswith("handle_"):
                # background replication of the coordinator's own changes (health loop, reconcile): nothing is acknowledged
                # to a client here; whether such changes reach the replicated state is C38's question
                ctx.note("background replication site (not a client acknowledgement): %s at %s" % (fn, t["sp"]))
                continue
            counts[fn] = counts.get(fn, 0) + 1
            key = "%s#%d" % (fn, counts[fn])
            pred = (lambda ty: ty.startswith("core::result::Result<openraft::raft::") and "ClientWriteResponse<" in ty.split(",")[0]) if is_cw else \
                   (lambda ty: ty.startswith("core::result::Result<(), varpulis_cluster::ClusterError") or ty.startswith("core::result::Result<(), varpulis_cluster::error::ClusterError"))
            sws = result_switches(b, bb, pred)
            if not sws:
                ctx.violation("replication-result", key, "%s awaits the replication (%s) but never examines its Result: a failed replication is acknowledged like a successful one" % (fn, "client_write" if is_cw else "raft_replicate"), site=t["sp"])
                continue
            sb, st = sws[0]
            err_t = [tgt_ for v, tgt_ in st["cases"] if v == 1]
            ok_t = [x for x in set(b.succs_of(sb)) if x not in err_t]
            if not err_t or not ok_t:
                ctx.violation("replication-result", key, "%s: unrecognised match on the replication result" % fn, site=t["sp"])
                continue
            re = b.reachable(err_t[0])
            # (a replication inside a loop: the Ok arm legitimately comes back to the same test; do not follow it through the switch)
            rk = set().union(*[b.reachable(x, avoid_blocks=[sb]) for x in ok_t])
            join_calls = [x for x in (re & rk) if b.term(x)["k"] == "call" and not b.term(x)["callee"].startswith("core::ptr::drop_in_place")]
            if join_calls:
                ctx.violation("replication-result", key, "%s: the Err arm of the replication result rejoins the success path (e.g. at %s): the handler can reply success although the write is not replicated" % (fn, b.term(join_calls[0])["sp"]), site=b.term(sb)["sp"])
            else:
                ctx.ok("replication-result", key, "Err arm leaves the success path", site=b.term(sb)["sp"])
                if len(ctx.samples) < 8:
                    ctx.sample({"handler": fn, "replication_call": t["sp"], "result_switch": b.term(sb)["sp"]})
    ctx.floor("replication-result", "replication call sites (client_write / raft_replicate)", n, 12)
