"""C37 — acknowledged writes are not lost: the one structural clause (R-LOSSY / R-ORDER on the replication result; cfg raft)."""
from vpr.facts import root_fn

EXPLANATION = (
    "cfg raft, MIR of the async bodies: for every call of openraft's Raft::client_write (and of Coordinator::raft_replicate) "
    "in the API handlers, the coordinator and the CLI health loop, the awaited Result must be examined by a discriminant "
    "switch, and the Err edge must leave the function's normal continuation: no block that performs a call is reachable "
    "both from the Err arm and from the Ok arm (i.e. the error path returns / builds its own error reply and never falls "
    "through to the success reply). A dropped or merely logged replication error lets the handler acknowledge a write that "
    "is not in the replicated log. Agreement under faults is openraft's algorithm plus the network and is not decided."
)
DECIDED = ["a failed replication never falls through to the success reply of the handler that issued it"]
NOT_DECIDED = ["consensus safety (openraft)", "message loss / partitions / restarts", "local state changes made before a replication that then fails (reported under C38)"]

WRITE = ("::client_write",)
REPL = "varpulis_cluster::coordinator::Coordinator::raft_replicate"


def result_switches(b, after_bb, ty_pred):
    """switch blocks dominated by after_bb whose discriminant is read from a local whose type satisfies ty_pred"""
    out = []
    for bb in sorted(b.live):
        t = b.term(bb)
        if t["k"] != "switch" or not b.dominates(after_bb, bb):
            continue
        r = b.chase(t["discr"])
        if r[0] != "discr":
            continue
        pl = r[1]["o"][0].get("c") or r[1]["o"][0].get("m")
        if pl is None:
            continue
        ty = b.local_ty(pl["l"])
        if pl["p"]:
            # projection into a Poll<Result<..>> etc.: use the statement's view via desc only
            pass
        if ty_pred(ty) and not pl["p"]:
            out.append((bb, t))
    return out


def run(ctx):
    F = ctx.facts("raft")
    n = 0
    counts = {}
    for p in F.mir_paths():
        if not (p.startswith("varpulis_cluster::") or p.startswith("varpulis@bin::") or p.startswith("varpulis_cli::")):
            continue
        b = ctx.body(p, "raft")
        for bb, t in b.calls():
            tgt = t["inst"] or t["callee"]
            is_cw = t["callee"].endswith(WRITE) and "openraft" in t["callee"]
            is_rep = tgt == REPL
            if not (is_cw or is_rep):
                continue
            if root_fn(p) == REPL:
                # raft_replicate itself: the error is mapped and propagated with `?`
                n += 1
                used = any(tt["callee"].endswith("::map_err") for _, tt in b.calls())
                if used:
                    ctx.ok("replication-result", "raft_replicate", "error mapped and propagated")
                else:
                    ctx.violation("replication-result", "raft_replicate", "raft_replicate does not propagate the client_write error", site=t["sp"])
                continue
            n += 1
            fn = root_fn(p).rsplit("::", 1)[1]
            if not fn.startswith("handle_"):
                # background replication of the coordinator's own changes (health loop, reconcile): nothing is acknowledged
                # to a client here; whether such changes reach the replicated state is C38's question
                ctx.note("background replication site (not a client acknowledgement): %s at %s" % (fn, t["sp"]))
                continue
            counts[fn] = counts.get(fn, 0) + 1
            key = "%s#%d" % (fn, counts[fn])
            pred = (lambda ty: ty.startswith("core::result::Result<openraft::raft::") and "ClientWriteResponse<" in ty.split(",")[0]) if is_cw else \
                   (lambda ty: ty.startswith("core::result::Result<(), varpulis_cluster::ClusterError") or ty.startswith("core::result::Result<(), varpulis_cluster::error::ClusterError"))
            sws = result_switches(b, bb, pred)
            if not sws:
                ctx.violation("replication-result", key, "%s awaits the replication (%s) but never examines its Result: a failed replication is acknowledged like a successful one" % (fn, "client_write" if is_cw else "raft_replicate"), site=t["sp"])
                continue
            sb, st = sws[0]
            err_t = [tgt_ for v, tgt_ in st["cases"] if v == 1]
            ok_t = [x for x in set(b.succs_of(sb)) if x not in err_t]
            if not err_t or not ok_t:
                ctx.violation("replication-result", key, "%s: unrecognised match on the replication result" % fn, site=t["sp"])
                continue
            re = b.reachable(err_t[0])
            # (a replication inside a loop: the Ok arm legitimately comes back to the same test; do not follow it through the switch)
            rk = set().union(*[b.reachable(x, avoid_blocks=[sb]) for x in ok_t])
            join_calls = [x for x in (re & rk) if b.term(x)["k"] == "call" and not b.term(x)["callee"].startswith("core::ptr::drop_in_place")]
            if join_calls:
                ctx.violation("replication-result", key, "%s: the Err arm of the replication result rejoins the success path (e.g. at %s): the handler can reply success although the write is not replicated" % (fn, b.term(join_calls[0])["sp"]), site=b.term(sb)["sp"])
            else:
                ctx.ok("replication-result", key, "Err arm leaves the success path", site=b.term(sb)["sp"])
                if len(ctx.samples) < 8:
                    ctx.sample({"handler": fn, "replication_call": t["sp"], "result_switch": b.term(sb)["sp"]})
    ctx.floor("replication-result", "replication call sites (client_write / raft_replicate)", n, 12)
