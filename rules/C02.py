"""C02 — earliest completion per start event (R-ORDER, R-ARMS sibling loops, single capture per event)."""
from vpr import hirq as H

EXPLANATION = (
    "(a) R-ORDER on MIR: in each SASE entry point the advance of existing runs dominates try_start_run_shared for the same event "
    "(a run is never advanced by the event that started it, and a start never precedes older runs' completion); (b) R-ARMS on "
    "HIR: the two run loops (process_runs_shared, process_partition_shared) agree arm by arm on RunAdvanceResult and with the "
    "contract table: Complete | CompleteMulti | Invalidate remove the run (one completion per run), Continue | NoMatch | "
    "CompleteAndContinue keep it; (c) on MIR of advance_run_shared / advance_and_state: after an event has been captured by a "
    "transition no second capture is reachable for the same event (first matching transition wins)."
    " (d) sibling prologue: before advancing a run both run loops drop it under the same condition, which includes Run.invalidated (set by a global negation), so an invalidated run never advances or completes."
)
DECIDED = ["existing runs advance before a new run is started with the same event", "a completed run is removed in both run loops", "one capture per run and event", "both run loops drop timed-out and invalidated runs before advancing them"]
NOT_DECIDED = ["that the emitted match is the earliest one (depends on iteration order and swap_remove reordering)", "negation timing (see C01)"]

S = "varpulis_runtime::sase::"
ENTRIES = (S + "SaseEngine::process_shared", S + "SaseEngine::process_shared_with_result", S + "SaseEngine::process_instrumented")
ADV = {S + "SaseEngine::process_partition_shared", S + "SaseEngine::process_runs_shared"}
START = {S + "SaseEngine::try_start_run_shared"}
TABLE = {"Continue": "keep", "Complete": "remove", "CompleteAndContinue": "keep", "CompleteMulti": "remove", "Invalidate": "remove", "NoMatch": "keep"}


def run_order(ctx):
    for fn in ENTRIES:
        b = ctx.need_body(fn, rule="advance-before-start")
        adv = b.call_blocks(ADV)
        st = b.call_blocks(START)
        name = fn.rsplit("::", 1)[1]
        if not adv or not st:
            ctx.violation("advance-before-start", name, "%s: run loops (%d) or run start (%d) not found" % (name, len(adv), len(st)))
            continue
        bad = [s for s in st if not b.blocks_dominate(adv, s)]
        # and no advance after the start on the same path
        later = [s for s in st for a in adv if a in set().union(*[b.reachable(x) for x in b.succ[s]])]
        if bad:
            ctx.violation("advance-before-start", name, "%s starts a new run with the event on a path where the existing runs have not been advanced first" % name, site=b.term(bad[0])["sp"])
        elif later:
            ctx.violation("advance-before-start", name, "%s advances runs after starting a new run with the same event: the new run is advanced by its own start event" % name, site=b.term(later[0])["sp"])
        else:
            ctx.ok("advance-before-start", name, site=b.term(st[0])["sp"])


def run_loops(ctx):
    F = ctx.facts()
    tables = {}
    for fn in sorted(ADV):
        h = ctx.need_hir(fn, rule="loop-arms")
        ms = H.matches_on(h["body"], lambda t: t.endswith("sase::RunAdvanceResult"))
        if len(ms) != 1:
            ctx.anchor_lost("loop-arms", "%s: expected one match on RunAdvanceResult, found %d" % (fn, len(ms)))
            continue
        tab = {}
        for head, pat, arm in H.arm_rows(ms[0]):
            if head == "*":
                ctx.violation("loop-arms", "%s:wildcard" % fn.rsplit("::", 1)[1], "wildcard arm over RunAdvanceResult", site=arm["sp"])
                continue
            v = head.rsplit("::", 1)[1]
            removes = any(x.get("k") == "mcall" and x["method"] in ("swap_remove", "remove") for x in H.walk(arm["body"]))
            # `i += 1` on the loop index (any local name): the run stays and the scan moves on
            keeps = any(x.get("k") == "assign" and x["op"] == "Add" and H.strip(x["l"]).get("k") == "path" and H.show(x["r"]) == "1" for x in H.walk(arm["body"]))
            tab[v] = "remove" if removes and not keeps else "keep" if keeps and not removes else "?"
            pushes = any(x.get("k") == "mcall" and x["method"] in ("push", "extend") for x in H.walk(arm["body"]))
            if v in ("Complete", "CompleteMulti", "CompleteAndContinue") and not pushes:
                ctx.violation("loop-arms", "%s:%s:emit" % (fn.rsplit("::", 1)[1], v), "arm %s does not record the completed match" % v, site=arm["sp"])
        tables[fn] = tab
        name = fn.rsplit("::", 1)[1]
        for v, want in TABLE.items():
            got = tab.get(v)
            key = "%s:%s" % (name, v)
            if got == want:
                ctx.ok("loop-arms", key)
            else:
                ctx.violation("loop-arms", key, "%s: a run whose advance result is %s is %s; the contract is %s (a completed or invalidated run is removed exactly once, others stay)" % (name, v, {"keep": "kept", "remove": "removed", None: "not handled", "?": "handled in an unrecognised way"}[got], want), site=ms[0]["sp"])
    ctx.sample({"run_loop_tables": {k.rsplit("::", 1)[1]: v for k, v in tables.items()}})


def run_prologue(ctx):
    """Before a run is advanced with the event, both run loops must drop it when it is timed out OR was invalidated by a
    global negation (check_global_negations only sets Run.invalidated; the removal happens here): sibling agreement of the
    skip condition, and `invalidated` must be part of it — otherwise an invalidated run keeps advancing and completes."""
    atoms = {}
    for fn in sorted(ADV):
        h = ctx.need_hir(fn, rule="loop-prologue")
        name = fn.rsplit("::", 1)[1]
        found = None
        for lp in H.walk(h["body"]):
            if lp.get("k") != "loop":
                continue
            if not any(x.get("k") == "call" and str(x.get("callee", "")).endswith("sase::advance_run_shared") for x in H.walk(lp["body"])):
                continue
            conds = []
            for x in H.walk(lp["body"]):
                if x.get("k") == "if" and any(y.get("k") == "mcall" and y["method"] in ("swap_remove", "remove") for y in H.walk(x["then"])) \
                        and any(y.get("k") == "continue" for y in H.walk(x["then"])) and not any(y.get("k") == "match" for y in H.walk(x["then"])):
                    conds.append(x)
            if conds:
                # several `if c { remove; continue }` in a row are one prologue: the run is dropped under c1 || c2 || ..
                found = dict(conds[0])
                found["cond"] = {"k": "tuple", "es": [c_["cond"] for c_ in conds], "sp": conds[0]["sp"], "exp": ""}
                break
        if not found:
            ctx.violation("loop-prologue", name + ":present", "%s advances runs without first dropping timed-out / invalidated ones (no `if <cond> { remove; continue }` before advance_run_shared in the run loop)" % name, site=h["span"])
            continue
        c = found["cond"]
        a = {("field", y["name"]) for y in H.walk(c) if y.get("k") == "field" and y.get("adt", "").endswith("sase::Run")} | \
            {("call", y["method"]) for y in H.walk(c) if y.get("k") == "mcall" and str(y.get("def", "")).startswith("varpulis_runtime::sase::Run::")}
        atoms[name] = (a, found["sp"])
        if ("field", "invalidated") in a:
            ctx.ok("loop-prologue", name + ":invalidated", "skip condition: %s" % sorted(a), site=found["sp"])
        else:
            ctx.violation("loop-prologue", name + ":invalidated", "%s drops a run before advancing it only under %s: a run invalidated by a `.not(..)` event (Run.invalidated, set by check_global_negations) is still advanced and can complete, so a match is emitted although the forbidden event occurred" % (name, sorted(x[1] for x in a)), site=found["sp"])
    if len(atoms) == 2:
        (n1, (a1, s1)), (n2, (a2, s2)) = sorted(atoms.items())
        if a1 == a2:
            ctx.ok("loop-prologue", "siblings-agree", "both loops skip under %s" % sorted(x[1] for x in a1))
        else:
            ctx.violation("loop-prologue", "siblings-agree", "the two run loops drop runs under different conditions: %s under %s, %s under %s — partitioned and unpartitioned programs treat the same run differently" % (
                n1, sorted(x[1] for x in a1), n2, sorted(x[1] for x in a2)), site=s1)
    ctx.sample({"loop_prologues": {k: sorted(x[1] for x in v[0]) for k, v in atoms.items()}})


def run_single_capture(ctx):
    caps = {S + "Run::push", S + "Run::push_at", S + "Run::push_at_kleene"}
    n = 0
    for fn in (S + "advance_run_shared", S + "advance_and_state"):
        b = ctx.need_body(fn, rule="single-capture")
        blocks = b.call_blocks(caps)
        n += len(blocks)
        for i, p in enumerate(blocks):
            after = set().union(*[b.reachable(s) for s in b.succ[p]]) if b.succ[p] else set()
            again = [q for q in blocks if q in after]
            key = "%s#%d" % (fn.rsplit("::", 1)[1], i + 1)
            if again:
                ctx.violation("single-capture", key, "after capturing the event, another capture of the same event is reachable (the run can take two transitions on one event)", site=b.term(again[0])["sp"])
            else:
                ctx.ok("single-capture", key, site=b.term(p)["sp"])
    ctx.floor("single-capture", "capture sites in the advance functions", n, 4)


def run(ctx):
    ctx.guard("advance-before-start", lambda: run_order(ctx))
    ctx.guard("loop-arms", lambda: run_loops(ctx))
    ctx.guard("loop-prologue", lambda: run_prologue(ctx))
    ctx.guard("single-capture", lambda: run_single_capture(ctx))
