"""C02 — earliest completion per start event (R-ORDER, R-ARMS sibling loops, single capture per event)."""
from vpr import hirq as H

EXPLANATION = (
    "(a) R-ORDER on MIR: in each SASE entry point the advance of existing runs dominates try_start_run_shared for the same event "
    "(a run is never advanced by the event that started it, and a start never precedes older runs' completion); (b) R-ARMS on "
    "HIR: the two run loops (process_runs_shared, process_partition_shared) agree arm by arm on RunAdvanceResult and with the "
    "contract table: Complete | CompleteMulti | Invalidate remove the run (one completion per run), Continue | NoMatch | "
    "CompleteAndContinue keep it; (c) on MIR of advance_run_shared / advance_and_state: after an event has been captured by a "
    "transition no second capture is reachable for the same event (first matching transition wins)."
)
DECIDED = ["existing runs advance before a new run is started with the same event", "a completed run is removed in both run loops", "one capture per run and event"]
NOT_DECIDED = ["that the emitted match is the earliest one (depends on iteration order and swap_remove reordering)", "negation timing (see C01)"]

S = "varpulis_runtime::sase::"
ENTRIES = (S + "SaseEngine::process_shared", S + "SaseEngine::process_shared_with_result", S + "SaseEngine::process_instrumented")
ADV = {S + "SaseEngine::process_partition_shared", S + "SaseEngine::process_runs_shared"}
START = {S + "SaseEngine::try_start_run_shared"}
TABLE = {"Continue": "keep", "Complete": "remove", "CompleteAndContinue": "keep", "CompleteMulti": "remove", "Invalidate": "remove", "NoMatch": "keep"}


def run_order(ctx):
    for fn in ENTRIES:
        b = ctx.need_body(fn, rule="advance-before-start")
        adv = b.call_blocks(ADV)
        st = b.call_blocks(START)
        name = fn.rsplit("::", 1)[1]
        if not adv or not st:
            ctx.violation("advance-before-start", name, "%s: run loops (%d) or run start (%d) not found" % (name, len(adv), len(st)))
            continue
        bad = [s for s in st if not b.blocks_dominate(adv, s)]
        # and no advance after the start on the same path
        later = [s for s in st for a in adv if a in set().union(*[b.reachable(x) for x in b.succ[s]])]
        if bad:
            ctx.violation("advance-before-start", name, "%s starts a new run with the event on a path where the existing runs have not been advanced first" % name, site=b.term(bad[0])["sp"])
        elif later:
            ctx.violation("advance-before-start", name, "%s advances runs after starting a new run with the same event: the new run is advanced by its own start event" % name, site=b.term(later[0])["sp"])
        else:
            ctx.ok("advance-before-start", name, site=b.term(st[0])["sp"])


def run_loops(ctx):
    F = ctx.facts()
    tables = {}
    for fn in sorted(ADV):
        h = ctx.need_hir(fn, rule="loop-arms")
        ms = H.matches_on(h["body"], lambda t: t.endswith("sase::RunAdvanceResult"))
        if len(ms) != 1:
            ctx.anchor_lost("loop-arms", "%s: expected one match on RunAdvanceResult, found %d" % (fn, len(ms)))
            continue
        tab = {}
        for head, pat, arm in H.arm_rows(ms[0]):
            if head == "*":
                ctx.violation("loop-arms", "%s:wildcard" % fn.rsplit("::", 1)[1], "wildcard arm over RunAdvanceResult", site=arm["sp"])
                continue
            v = head.rsplit("::", 1)[1]
            removes = any(x.get("k") == "mcall" and x["method"] in ("swap_remove", "remove") for x in H.walk(arm["body"]))
            keeps = any(x.get("k") == "assign" and x["op"] == "Add" and H.local_name(x["l"]) == "i" for x in H.walk(arm["body"]))
            tab[v] = "remove" if removes and not keeps else "keep" if keeps and not removes else "?"
            pushes = any(x.get("k") == "mcall" and x["method"] in ("push", "extend") for x in H.walk(arm["body"]))
            if v in ("Complete", "CompleteMulti", "CompleteAndContinue") and not pushes:
                ctx.violation("loop-arms", "%s:%s:emit" % (fn.rsplit("::", 1)[1], v), "arm %s does not record the completed match" % v, site=arm["sp"])
        tables[fn] = tab
        name = fn.rsplit("::", 1)[1]
        for v, want in TABLE.items():
            got = tab.get(v)
            key = "%s:%s" % (name, v)
            if got == want:
                ctx.ok("loop-arms", key)
            else:
                ctx.violation("loop-arms", key, "%s: a run whose advance result is %s is %s; the contract is %s (a completed or invalidated run is removed exactly once, others stay)" % (name, v, {"keep": "kept", "remove": "removed", None: "not handled", "?": "handled in an unrecognised way"}[got], want), site=ms[0]["sp"])
    ctx.sample({"run_loop_tables": {k.rsplit("::", 1)[1]: v for k, v in tables.items()}})


def run_single_capture(ctx):
    caps = {S + "Run::push", S + "Run::push_at", S + "Run::push_at_kleene"}
    n = 0
    for fn in (S + "advance_run_shared", S + "advance_and_state"):
        b = ctx.need_body(fn, rule="single-capture")
        blocks = b.call_blocks(caps)
        n += len(blocks)
        for i, p in enumerate(blocks):
            after = set().union(*[b.reachable(s) for s in b.succ[p]]) if b.succ[p] else set()
            again = [q for q in blocks if q in after]
            key = "%s#%d" % (fn.rsplit("::", 1)[1], i + 1)
            if again:
                ctx.violation("single-capture", key, "after capturing the event, another capture of the same event is reachable (the run can take two transitions on one event)", site=b.term(again[0])["sp"])
            else:
                ctx.ok("single-capture", key, site=b.term(p)["sp"])
    ctx.floor("single-capture", "capture sites in the advance functions", n, 4)


def run(ctx):
    ctx.guard("advance-before-start", lambda: run_order(ctx))
    ctx.guard("loop-arms", lambda: run_loops(ctx))
    ctx.guard("single-capture", lambda: run_single_capture(ctx))
