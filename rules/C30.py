"""C30 — rate limiter bound (token bucket write discipline, panicking float->Duration conversions)."""
from vpr.guards import comparison_guards
from vpr.prov import Slicer

EXPLANATION = (
    "On MIR of varpulis_cluster::rate_limit: (1) who-may-write: TokenBucket.tokens is written only by the constructor, refill "
    "and try_consume; (2) refill assigns tokens the value of f64::min(.., max_tokens) and updates last_update on the same "
    "path; (3) try_consume decrements only under tokens >= 1 (after refill) and returns true only on the decrement path — "
    "so admissions <= burst + rate * elapsed by construction; (4) every Duration::from_secs_f64 (panics on negative, "
    "infinite or NaN input) whose argument derives from a float division is dominated by a test that the divisor is "
    "positive: a configuration the limiter accepts (rate 0) must not panic or produce a non-finite retry-after."
)
DECIDED = ["token writes are the clamped refill or the guarded decrement", "admission only on the decrement path", "no panicking float->Duration conversion on an unguarded division"]
NOT_DECIDED = ["floating point accumulation error of the bucket", "eviction fairness of the per-IP map beyond 'while that client is tracked'"]

M = "varpulis_cluster::rate_limit::"
TB = M + "TokenBucket"


def field_write_sites(b, adt, field):
    out = []
    for bb in sorted(b.live):
        for s in b.stmts(bb):
            p = s["d"]["p"]
            if p and isinstance(p[-1], dict) and p[-1].get("f") == field and p[-1].get("a") == adt:
                out.append((bb, s))
        t = b.term(bb)
        if t["k"] == "call":
            p = t["dest"]["p"]
            if p and isinstance(p[-1], dict) and p[-1].get("f") == field and p[-1].get("a") == adt:
                out.append((bb, t))
    return out


def run(ctx):
    F = ctx.facts()
    # (1)
    writers = F.field_accessors(TB, "tokens", kinds=("w", "m"))
    allowed = {TB + "::refill", TB + "::try_consume"}
    ctx.floor("writers", "functions writing TokenBucket.tokens", len(writers), 2)
    for w, rows in writers.items():
        if w in allowed:
            ctx.ok("writers", w)
        else:
            ctx.violation("writers", w, "%s writes TokenBucket.tokens; only the clamped refill and the guarded decrement may" % w, site=rows[0]["sp"])
    # (2) refill
    b = ctx.need_body(TB + "::refill", rule="refill")
    ws = field_write_sites(b, TB, "tokens")
    ctx.floor("refill", "writes of tokens in refill", len(ws), 1)
    for bb, s in ws:
        if s.get("k") == "call" and s["callee"].endswith("::min") and any("max_tokens" in b.desc(a) for a in s["args"]):
            ctx.ok("refill", "clamped", "tokens = min(%s)" % ", ".join(b.desc(a)[:40] for a in s["args"]), site=s["sp"])
            ctx.sample({"refill": "tokens = min(%s)" % ", ".join(b.desc(a)[:60] for a in s["args"])})
        elif "o" in s and len(s["o"]) == 1 and b.desc(s["o"][0]).startswith("min(") and "max_tokens" in b.desc(s["o"][0]):
            ctx.ok("refill", "clamped", "tokens = %s" % b.desc(s["o"][0])[:80], site=s["sp"])
            ctx.sample({"refill": "tokens = %s" % b.desc(s["o"][0])[:100]})
        else:
            d = " ".join(b.desc(o) for o in s.get("o", [])) if "o" in s else s.get("callee", "")
            ctx.violation("refill", "clamped", "refill assigns tokens `%s` without clamping to max_tokens: idle time accumulates an unbounded burst" % d[:80], site=s["sp"])
    lu = field_write_sites(b, TB, "last_update")
    if not lu or b.must_pass_through([bb for bb, _ in lu]):
        ctx.violation("refill", "last_update", "refill adds tokens for the elapsed time without advancing last_update on every path (the same interval is credited again)")
    else:
        ctx.ok("refill", "last_update")
    # (3) try_consume
    b = ctx.need_body(TB + "::try_consume", rule="consume")
    ws = field_write_sites(b, TB, "tokens")
    refill_calls = b.call_blocks({TB + "::refill"})
    ctx.floor("consume", "writes of tokens in try_consume", len(ws), 1)
    dec_blocks = []
    for bb, s in ws:
        nfs = [nf for nf, g in comparison_guards(b, bb)]
        hit = [nf for nf in nfs if nf[0] == ">=" and "tokens" in nf[1] and nf[2].startswith("1")]
        is_dec = s.get("k") == "binop" and s.get("op") == "Sub" and b.desc(s["o"][1]).startswith("1")
        if hit and is_dec and refill_calls and all(b.blocks_dominate(refill_calls, bb) for _ in [0]):
            ctx.ok("consume", "guarded-decrement", "tokens -= 1 under %s %s %s after refill" % (hit[0][1], hit[0][0], hit[0][2]), site=s["sp"])
            dec_blocks.append(bb)
        else:
            ctx.violation("consume", "guarded-decrement", "try_consume writes tokens (%s) not as `tokens -= 1` under `tokens >= 1` after refill (guards %s)" % (s.get("op"), nfs), site=s["sp"])
    trues = [bb for bb in sorted(b.live) for s in b.stmts(bb) if s["d"]["l"] == 0 and not s["d"]["p"] and s["k"] == "use" and s["o"][0].get("k", {}).get("val") == "true"]
    if not trues:
        ctx.anchor_lost("consume", "no `true` result found in try_consume")
    for tb in trues:
        if dec_blocks and b.blocks_dominate(dec_blocks, tb):
            ctx.ok("consume", "admit-after-decrement")
        else:
            ctx.violation("consume", "admit-after-decrement", "try_consume can admit a request (return true) on a path that does not take a token", site=b.js["span"])
    # callers: admission result of check() derives from try_consume
    cb = None
    for p in F.find_fns(r"rate_limit::RateLimiter::check::\{closure#0\}$"):
        cb = ctx.body(p)
    if cb is None:
        ctx.anchor_lost("consume", "RateLimiter::check body not found")
    else:
        allowed_aggs = [(bb, s) for bb in sorted(cb.live) for s in cb.stmts(bb) if s["k"] == "agg" and s.get("agg", "").endswith("RateLimitResult::Allowed")]
        n_ok = 0
        for bb, s in allowed_aggs:
            gs = cb.guards_of(bb)
            if any(g["kind"] == "call" and g["call"]["callee"] == TB + "::try_consume" and g["taken"] == "true" for g in gs) or \
               any(g["kind"] == "binop" or ("enabled" in g.get("text", "")) for g in gs if g["taken"] in ("false", "true") and "enabled" in g.get("text", "")):
                n_ok += 1
                ctx.ok("consume", "check-allowed#%d" % n_ok, site=s["sp"])
            else:
                ctx.violation("consume", "check-allowed", "RateLimiter::check builds an Allowed result that is neither the disabled-limiter case nor guarded by try_consume() == true", site=s["sp"])
        ctx.floor("consume", "Allowed results in check", len(allowed_aggs), 2)
    # (4) panicking conversions
    n = 0
    for p in [x for x in F.mir_paths() if x.startswith(M)]:
        pb = ctx.body(p)
        for bb, t in pb.calls():
            if not t["callee"].endswith("Duration::from_secs_f64") and not t["callee"].endswith("Duration::from_secs_f32"):
                continue
            n += 1
            key = "%s:from_secs_f64" % p[len(M):]
            # does the argument derive from a float division?
            o = Slicer(pb).origins([t["args"][0]], through_calls="transparent")
            divs = []
            for l in o.locals:
                for d in pb.defs.get(l, ()):
                    if d[0] == "stmt" and d[3]["k"] == "binop" and d[3].get("op") == "Div" and d[3].get("lty") in ("f64", "f32"):
                        divs.append(d[3])
            if not divs:
                ctx.ok("conversion", key, "argument is not a quotient", site=t["sp"])
                continue
            bad = None
            for dv in divs:
                divisor = pb.desc(dv["o"][1])
                nfs = [nf for nf, g in comparison_guards(pb, bb)]
                if not any(nf[0] == ">" and nf[1] == divisor and nf[2].startswith("0") for nf in nfs):
                    bad = divisor
            if bad:
                ctx.violation("conversion", key, "Duration::from_secs_f64 of a quotient by `%s` with no dominating `%s > 0` test: a zero divisor (an accepted configuration) gives an infinite value and the conversion panics" % (bad, bad), site=t["sp"])
            else:
                ctx.ok("conversion", key, "divisor tested positive", site=t["sp"])
    ctx.floor("conversion", "float->Duration conversion sites in rate_limit", n, 1)
