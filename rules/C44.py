"""C44 — event values through the REST API (R-ARMS: converter arm tables and their composition)."""
from vpr import hirq as H

EXPLANATION = (
    "R-ARMS on type-checked HIR: the Value->JSON converters (api::json_from_value, websocket::value_to_json) are compared "
    "arm by arm (which JSON kind each Value variant becomes); the JSON->Value converters (api::json_to_runtime_value, "
    "websocket::json_to_value_bounded) likewise; composing JSON->Value with Value->JSON must be the identity on JSON kinds "
    "(null, bool, number, string, array, object); no wildcard arms. The `Number` arm has to consider all three "
    "representations serde_json can hold (as_i64, as_u64, as_f64): an integer above i64::MAX is only visible through "
    "as_u64 and otherwise degrades silently to a float."
)
DECIDED = ["kind mapping of the four converters and their agreement", "which numeric representations the Number arm distinguishes"]
NOT_DECIDED = ["float formatting of serde_json", "key order of objects"]

VAL = "varpulis_core::value::Value"
JV = "serde_json::value::Value"
TO_JSON = ["varpulis_cli::api::json_from_value", "varpulis_cli::websocket::value_to_json"]
FROM_JSON = ["varpulis_cli::api::json_to_runtime_value", "varpulis_cli::websocket::json_to_value_bounded"]
HELPERS = {"varpulis_core::value::Value::array": "Array", "varpulis_core::value::Value::map": "Map"}


def to_json_kind(arm_body):
    """JSON kind produced by an arm body of a Value->JSON converter"""
    for x in H.walk(arm_body):
        if x.get("k") in ("call", "path"):
            p = x["callee"] if x.get("k") == "call" and isinstance(x["callee"], str) else x.get("res", "")
            p = p.split(":", 1)[1] if ":" in p else p
            if p.startswith(JV + "::"):
                return p.rsplit("::", 1)[1]
            if p.endswith("serde_json::value::to_value") or p.endswith("::to_value"):
                return "Number"  # json!(n) on a numeric payload
    return None


def table_to_json(ctx, fn):
    h = ctx.need_hir(fn, rule="arms")
    ms = H.matches_on(h["body"], lambda t: t.endswith("value::Value") and "serde_json" not in t)
    if not ms:
        ctx.anchor_lost("arms", "%s: no match on Value" % fn)
        return None
    tab = {}
    for head, pat, arm in H.arm_rows(ms[0]):
        if head == "*":
            ctx.violation("arms", "%s:wildcard" % fn.rsplit("::", 1)[1], "wildcard arm in %s" % fn, site=arm["sp"])
            continue
        tab[head.rsplit("::", 1)[1]] = to_json_kind(arm["body"])
    return tab


def table_from_json(ctx, fn):
    h = ctx.need_hir(fn, rule="arms")
    ms = H.matches_on(h["body"], lambda t: t.endswith("serde_json::value::Value"))
    if not ms:
        ctx.anchor_lost("arms", "%s: no match on serde_json::Value" % fn)
        return None, None
    tab = {}
    number_arm = None
    for head, pat, arm in H.arm_rows(ms[0]):
        if head == "*":
            ctx.violation("arms", "%s:wildcard" % fn.rsplit("::", 1)[1], "wildcard arm in %s" % fn, site=arm["sp"])
            continue
        kind = head.rsplit("::", 1)[1]
        outs = set()
        for x in H.walk(arm["body"]):
            p = None
            if x.get("k") == "call" and isinstance(x["callee"], str):
                p = x["callee"].split(":", 1)[1]
            elif x.get("k") == "path":
                p = x["res"].split(":", 1)[1] if ":" in x["res"] else None
            if p in HELPERS:
                outs.add(HELPERS[p])
            elif p and p.startswith(VAL + "::"):
                outs.add(p.rsplit("::", 1)[1])
        tab[kind] = outs
        if kind == "Number":
            number_arm = arm
    return tab, number_arm


KIND_OF = {"Null": "Null", "Bool": "Bool", "Int": "Number", "Float": "Number", "Str": "String", "Timestamp": "Number", "Duration": "Number", "Array": "Array", "Map": "Object"}
BACK = {"Null": {"Null"}, "Bool": {"Bool"}, "Number": {"Int", "Float"}, "String": {"Str"}, "Array": {"Array"}, "Object": {"Map"}}


def run(ctx):
    F = ctx.facts()
    tj = {fn: table_to_json(ctx, fn) for fn in TO_JSON}
    for fn, tab in tj.items():
        if tab is None:
            continue
        name = fn.rsplit("::", 1)[1]
        for v in F.variants(VAL):
            key = "%s:%s" % (name, v)
            got = tab.get(v)
            if got == KIND_OF[v]:
                ctx.ok("arms", key, "-> JSON %s" % got)
            else:
                ctx.violation("arms", key, "%s renders Value::%s as JSON %s; expected %s (the sibling converter / the JSON kind of that value)" % (name, v, got, KIND_OF[v]))
        ctx.sample({"converter": name, "table": tab})
    for fn in FROM_JSON:
        tab, number_arm = table_from_json(ctx, fn)
        if tab is None:
            continue
        name = fn.rsplit("::", 1)[1]
        for kind, want in BACK.items():
            key = "%s:%s" % (name, kind)
            got = tab.get(kind, set())
            allowed = want | ({"Null"} if kind == "Number" else set())
            if got and got <= allowed and (got & want):
                ctx.ok("arms", key, "-> %s" % sorted(got))
            else:
                ctx.violation("arms", key, "%s maps JSON %s to %s; expected %s (round trip through the Value->JSON converter must keep the kind)" % (name, kind, sorted(got), sorted(want)))
        if number_arm is not None:
            methods = {x["method"] for x in H.walk(number_arm["body"]) if x.get("k") == "mcall"}
            key = "%s:number-representations" % name
            if {"as_i64", "as_f64"} <= methods and "as_u64" in methods:
                # the u64 representation must be carried without a wrapping cast: `u as i64` turns 2^63 into i64::MIN
                wraps = [x for x in H.walk(number_arm["body"]) if x.get("k") == "cast" and x.get("ty") in ("i64", "i32", "u32", "i16", "u16", "i8", "u8", "isize", "usize")
                         and any(y.get("k") == "path" for y in H.walk(x["e"]))]
                if wraps:
                    ctx.violation("number", "%s:number-wrap" % name, "%s casts a JSON number with `as %s`: a JSON integer above i64::MAX (as_u64) wraps to a negative integer (2^63 becomes i64::MIN, u64::MAX becomes -1) instead of keeping its value" % (name, wraps[0]["ty"]), site=wraps[0]["sp"])
                else:
                    ctx.ok("number", key, "as_i64 / as_u64 / as_f64")
            elif {"as_i64", "as_f64"} <= methods:
                ctx.violation("number", key, "%s distinguishes only as_i64 and as_f64: a JSON integer above i64::MAX (representable as u64) silently becomes a float and loses precision" % name, site=number_arm["sp"])
            else:
                ctx.violation("number", key, "%s: unrecognised number handling (%s)" % (name, sorted(methods)), site=number_arm["sp"])
        ctx.sample({"converter": name, "table": {k: sorted(v) for k, v in tab.items()}})
