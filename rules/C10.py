"""C10 — constant folding preserves meaning (R-ARMS on fold_binary / fold_unary against the evaluator's arm table)."""
from vpr import hirq as H

EXPLANATION = (
    "R-ARMS on type-checked HIR of varpulis_parser::optimize::fold_binary / fold_unary. (1) Every arm that returns something "
    "other than the reconstructed Expr::Binary must constrain BOTH operand patterns to literal variants: a rewrite with a "
    "wildcard operand (`x * 0 -> 0`, `x + 0 -> x`, ...) fixes the result without knowing the operand's runtime type, so it "
    "changes the value (or the absence of a value) for float, string, null or missing operands. (2) Every literal x literal "
    "arm must compute with the same operation as the evaluator's arm for the same (operator, operand types) row "
    "(eval_expr_with_functions is the oracle: its arm table is extracted the same way): a different operator family "
    "(panicking `/` vs wrapping_div, wrapping_pow vs float powi) gives a different value, or a panic at parse time, for "
    "boundary literals."
)
DECIDED = ["which folding arms rewrite without knowing both operand types", "operator-family agreement of literal folding with runtime evaluation"]
NOT_DECIDED = ["equality of float results", "folding inside nested expressions beyond these two functions"]

OPT = "varpulis_parser::optimize::"
EVAL = "varpulis_runtime::engine::evaluator::eval_expr_with_functions"
EXPR = "varpulis_core::ast::Expr::"
BINOP = "varpulis_core::ast::BinOp::"


def op_signature(e, binds):
    """operations applied in an arm body: method names on the bindings and arithmetic binary operators"""
    sig = []
    for x in H.walk(e):
        if x.get("k") == "mcall" and x["method"] not in ("clone", "into", "to_string", "as_ref"):
            sig.append(x["method"])
        elif x.get("k") == "bin" and x["op"] in ("Add", "Sub", "Mul", "Div", "Rem", "BitXor", "BitAnd", "BitOr"):
            sig.append({"Add": "+", "Sub": "-", "Mul": "*", "Div": "/", "Rem": "%"}.get(x["op"], x["op"]))
        elif x.get("k") == "cast":
            sig.append("as " + x["ty"])
    return sorted(sig)


def lit_variant(p):
    hd = H.pat_head(p)
    if isinstance(hd, str) and hd.startswith(EXPR):
        v = hd[len(EXPR):]
        return v if v in ("Int", "Float", "Bool", "Str", "Null", "Duration", "Timestamp") else None
    return None


def run(ctx):
    F = ctx.facts()
    h = ctx.need_hir(OPT + "fold_binary", rule="fold")
    ms = [m for m in H.matches_on(h["body"], lambda t: t.startswith("(") and "BinOp" in t and t.count("Expr") == 2)]
    ctx.floor("fold", "matches over (op, left, right) in fold_binary", len(ms), 2)
    lit_arms = {}
    n_ident = 0
    for m in ms:
        for a in m["arms"]:
            for p in H.pat_alts(a["pat"]):
                if p["k"] != "tuple" or len(p["sub"]) != 3:
                    continue
                oph = H.pat_head(p["sub"][0])
                if not (isinstance(oph, str) and oph.startswith(BINOP)):
                    continue
                op = oph[len(BINOP):]
                lv, rv = lit_variant(p["sub"][1]), lit_variant(p["sub"][2])
                body = H.strip(a["body"])
                rets = [x for x in H.walk(a["body"]) if x.get("k") == "ret"]
                if not rets:
                    continue  # `_ => {}` fall-through
                lpat, rpat = H.pat_str(p["sub"][1]), H.pat_str(p["sub"][2])
                if lv and rv:
                    lit_arms[(op, lv, rv)] = (a, op_signature(rets[0]["e"], None))
                    continue
                n_ident += 1
                key = "identity:%s:(%s,%s)" % (op, lpat, rpat)
                ctx.violation("fold", key, "fold_binary rewrites `%s %s %s` to `%s` with a wildcard operand: the rewrite is applied whatever the operand's runtime type (for a float, string, null or missing operand the unfolded expression yields a float, or no value, where the folded one yields `%s`)" % (
                    lpat, op, rpat, H.show(rets[0]["e"])[:30], H.show(rets[0]["e"])[:30]), site=a["sp"])
    # evaluator table
    eh = ctx.need_hir(EVAL, rule="fold")
    eval_arms = {}
    for m in H.matches_on(eh["body"], lambda t: "varpulis_core::ast::BinOp" in t and "Expr" not in t):
        for head, pat, arm in H.arm_rows(m):
            if not (isinstance(head, str) and head.startswith(BINOP)):
                continue
            op = head[len(BINOP):]
            inner = H.strip(arm["body"])
            if inner.get("k") != "match":
                continue
            for h2, p2, a2 in H.arm_rows(inner):
                if isinstance(h2, tuple) and len(h2) == 2 and all(isinstance(x, str) and x.startswith("varpulis_core::value::Value::") for x in h2):
                    l, r = (x.rsplit("::", 1)[1] for x in h2)
                    eval_arms.setdefault((op, l, r), op_signature(a2["body"], None))
    ctx.floor("fold", "literal x literal folding arms", len(lit_arms), 8)
    ctx.floor("fold", "evaluator (op, type, type) arms", len(eval_arms), 20)
    for (op, l, r), (arm, sig) in sorted(lit_arms.items()):
        key = "literal:%s:(%s,%s)" % (op, l, r)
        es = eval_arms.get((op, l, r))
        if es is None:
            ctx.violation("fold", key, "fold_binary folds %s on (%s, %s) but the evaluator has no arm for that row (it yields no value)" % (op, l, r), site=arm["sp"])
        elif es == sig:
            ctx.ok("fold", key, "same operation as the evaluator: %s" % sig, site=arm["sp"])
        else:
            ctx.violation("fold", key, "fold_binary computes %s on (%s, %s) literals with %s, the evaluator with %s: the folded constant differs from (or panics where) the unfolded evaluation for boundary literals" % (op, l, r, sig, es), site=arm["sp"])
        ctx.sample({"row": [op, l, r], "folder": sig, "evaluator": es})
    # fold_unary
    uh = ctx.need_hir(OPT + "fold_unary", rule="fold")
    for m in H.matches_on(uh["body"], lambda t: t.startswith("(") and "UnaryOp" in t):
        for a in m["arms"]:
            for p in H.pat_alts(a["pat"]):
                if p["k"] == "tuple" and len(p["sub"]) == 2 and lit_variant(p["sub"][1]) == "Int":
                    sig = op_signature(a["body"], None)
                    neg = any(x.get("k") == "un" and x["op"] == "Neg" for x in H.walk(a["body"]))
                    if neg and "wrapping_neg" not in sig:
                        ctx.violation("fold", "unary:Neg:Int", "fold_unary negates an integer literal with the panicking `-`: `-(-9223372036854775808)` panics inside parse() while the evaluator wraps", site=a["sp"])
                    else:
                        ctx.ok("fold", "unary:Neg:Int", str(sig))
