"""C06 — ZDD operations implement set-family algebra (R-SHAPE: recursion terms vs Minato's recurrences)."""
from vpr import hirq as H

EXPLANATION = (
    "R-SHAPE over type-checked HIR: for the arena and the stand-alone implementation of union, intersection, difference "
    "and product-with-optional-element, the term built in every case of the top-variable comparison (recursive calls with "
    "their role arguments, the node constructor's (var, lo, hi) roles) is extracted by let-chasing and compared with the "
    "textbook ZDD recurrences; the early-return prefix (terminal cases) is compared with its table as well. A wrong operand "
    "in one branch changes the family computed for every input that reaches the branch."
    " count: |Empty| = 0, |Base| = 1, |node| = count(lo) + count(hi) in all three counters; membership: Empty -> false, Base -> all elements consumed, node: var == e -> hi (advance), var > e -> false, else lo, in both walkers."
)
DECIDED = [
    "recursion term of every (top-variable) case of union/intersection/difference in ZddArena::*_refs and ops::*::*_rec",
    "terminal-case prefix (early returns) of the same functions",
    "product_with_optional_rec cases (n.var < var, == var, > var) in both implementations",
    "count and membership recurrences",
]
NOT_DECIDED = ["iteration order (see C07)", "remapping between tables (remap_nodes)", "cache key correctness beyond commutativity normalisation"]

REF = "varpulis_zdd::refs::ZddRef"

# textbook recurrences; roles: A,B operands; A.var/A.lo/A.hi their top node
TABLE = {
    "union": {
        "lt": "NODE(A.var,REC(A.lo,B),A.hi)", "gt": "NODE(B.var,REC(A,B.lo),B.hi)",
        "eq": "NODE(A.var,REC(A.lo,B.lo),REC(A.hi,B.hi))",
        "a_node": "NODE(A.var,REC(A.lo,Base),A.hi)", "b_node": "NODE(B.var,REC(Base,B.lo),B.hi)",
        "prefix": {"A==Empty": "B", "B==Empty": "A", "A==B": "A"},
        "commutative": True,
    },
    "intersection": {
        "lt": "REC(A.lo,B)", "gt": "REC(A,B.lo)", "eq": "NODE(A.var,REC(A.lo,B.lo),REC(A.hi,B.hi))",
        "a_node": "REC(A.lo,Base)", "b_node": "REC(Base,B.lo)",
        "prefix": {"A==Empty": "Empty", "B==Empty": "Empty", "A==B": "A"},
        "commutative": True,
    },
    "difference": {
        "lt": "NODE(A.var,REC(A.lo,B),A.hi)", "gt": "REC(A,B.lo)", "eq": "NODE(A.var,REC(A.lo,B.lo),REC(A.hi,B.hi))",
        "a_node": "NODE(A.var,REC(A.lo,Base),A.hi)", "b_node": "REC(Base,B.lo)",
        "prefix": {"A==Empty": "Empty", "B==Empty": "A", "A==B": "Empty"},
        "commutative": False,
    },
}
TABLE["product"] = {
    "lt": "NODE(A.var,REC(A.lo,B),REC(A.hi,B))", "gt": "NODE(B.var,REC(A,B.lo),REC(A,B.hi))",
    "eq": "NODE(A.var,REC(A.lo,B.lo),UNION(REC(A.hi,B.lo),REC(A.lo,B.hi),REC(A.hi,B.hi)))",
    "a_node": "A", "b_node": "B",
    "prefix": {"A==Empty": "Empty", "B==Empty": "Empty", "A==Base": "B", "B==Base": "A"},
    "commutative": True,
}
# early returns that are redundant but harmless (implied by the table)
PREFIX_EXTRA = {"A==Base&&B==Base": {"union": "Base", "intersection": "Base", "difference": "Empty", "product": "Base"}}

FUNCS = {
    "union": ["varpulis_zdd::arena::ZddArena::union_refs", "varpulis_zdd::ops::union::union_rec", "varpulis_zdd::ops::common::union_refs_rec"],
    "intersection": ["varpulis_zdd::arena::ZddArena::intersection_refs", "varpulis_zdd::ops::intersection::intersection_rec"],
    "difference": ["varpulis_zdd::arena::ZddArena::difference_refs", "varpulis_zdd::ops::difference::difference_rec"],
    "product": ["varpulis_zdd::ops::product::product_rec"],
}
PRODUCT = ["varpulis_zdd::arena::ZddArena::product_with_optional_rec", "varpulis_zdd::ops::product::product_with_optional_rec"]
PRODUCT_TABLE = {
    "lt": "NODE(N.var,REC(N.lo),REC(N.hi))",
    "eq": "NODE(V,N.lo,UNION(N.lo,N.hi))",
    "gt": "NODE(V,N,N)",
}


class Shape:
    """role environment + term builder for one function"""

    def __init__(self, path, hir, facts):
        self.path = path
        self.h = hir
        self.env = {}  # local name -> role / term string
        self.facts = facts

    def term(self, e, env=None):
        env = self.env if env is None else env
        e = H.strip(e)
        if e is None:
            return "?"
        k = e.get("k")
        if k == "path":
            kind, _, p = e["res"].partition(":")
            if kind == "local":
                p = p.split("#", 1)[0]
                return env.get(p, "?" + p)
            if p.endswith("ZddRef::Base"):
                return "Base"
            if p.endswith("ZddRef::Empty"):
                return "Empty"
            return "?" + H.short(p)
        if k == "field":
            base = self.term(e["e"], env)
            return "%s.%s" % (base, e["name"])
        if k in ("mcall", "call"):
            if k == "mcall":
                d, args = e["def"], e["args"]
            else:
                d = e["callee"].split(":", 1)[1] if isinstance(e["callee"], str) else ""
                args = e["args"]
            if d == self.path:
                n = 2 if self.path not in PRODUCT else 1
                return "REC(%s)" % ",".join(self.term(a, env) for a in args[:n])
            if d.endswith("::get_or_create"):
                return "NODE(%s)" % ",".join(self.term(a, env) for a in args[:3])
            if d.endswith("::union_refs"):
                return "UNION(%s)" % ",".join(self.term(a, env) for a in args[:2])
            return "?call:%s" % H.short(d)
        if k == "block":
            env2 = dict(env)
            for s in e["stmts"]:
                if s["k"] == "let" and s["pat"]["k"] == "bind" and s["init"] is not None:
                    env2[s["pat"]["name"]] = self.term(s["init"], env2)
                elif s["k"] == "let":
                    return "?let"
            if e["tail"] is None:
                return "?unit"
            return self.term(e["tail"], env2)
        if k == "if":
            c = self.cond(e["cond"], env)
            if c == "true":
                return self.term(e["then"], env)
            if c == "false" and e["else"] is not None:
                return self.term(e["else"], env)
            return "IF(%s,%s,%s)" % (c, self.term(e["then"], env), self.term(e["else"], env))
        return "?" + k

    def cond(self, e, env=None):
        env = self.env if env is None else env
        e = H.strip(e)
        if e.get("k") == "bin":
            if e["op"] in ("And", "Or"):
                l, r = self.cond(e["l"], env), self.cond(e["r"], env)
                if e["op"] == "And":
                    if l == "false" or r == "false":
                        return "false"
                    if l == "true":
                        return r
                    if r == "true":
                        return l
                    return "%s&&%s" % (l, r)
                if l == "true" or r == "true":
                    return "true"
                if l == "false":
                    return r
                if r == "false":
                    return l
                return "%s||%s" % (l, r)
            l, r = self.term(e["l"], env), self.term(e["r"], env)
            op = e["op"]
            if op == "Eq":
                if l == r:
                    return "true"
                if {l, r} <= {"Base", "Empty"}:
                    return "false"
                return "%s==%s" % (l, r)
            if op in ("Lt", "Gt", "Le", "Ge"):
                return "%s%s%s" % (l, {"Lt": "<", "Gt": ">", "Le": "<=", "Ge": ">="}[op], r)
        return "?cond"


def zddref_params(h, item):
    names = []
    for p, ty in zip(h["params"], item["inputs"]):
        if p["k"] == "bind" and ty.endswith("refs::ZddRef"):
            names.append(p["name"])
    return names


def analyse_binop(ctx, op, path):
    F = ctx.facts()
    h = ctx.need_hir(path, rule="shape")
    item = F.fn_item(path)
    tab = TABLE[op]
    sh = Shape(path, h, F)
    ps = zddref_params(h, item)
    if len(ps) != 2:
        ctx.anchor_lost("shape", "%s: expected two ZddRef parameters" % path)
        return
    sh.env[ps[0]] = "A"
    sh.env[ps[1]] = "B"
    body = h["body"]
    if body["k"] != "block":
        ctx.anchor_lost("shape", "%s: body is not a block" % path)
        return
    prefix = {}
    main = None
    for s in body["stmts"]:
        if s["k"] == "expr":
            e = H.strip(s["e"])
            if e.get("k") == "if" and e["else"] is None:
                rets = [x for x in H.walk(e["then"]) if x.get("k") == "ret"]
                c = e["cond"]
                if H.strip(c).get("k") == "letcond":
                    continue  # cache lookup `if let Some(&cached) = cache.get(..) { return cached }`
                if len(rets) == 1:
                    cs = sh.cond(c)
                    for alt in cs.split("||"):
                        prefix[alt] = sh.term(rets[0]["e"])
                    continue
            continue
        if s["k"] == "let":
            pat, init = s["pat"], s["init"]
            # commutativity normalisation: let (a, b) = if a <= b { (a, b) } else { (b, a) };
            if pat["k"] == "tuple" and len(pat["sub"]) == 2 and init is not None and H.strip(init).get("k") == "if":
                names = [x.get("name") for x in pat["sub"]]
                i = H.strip(init)
                t1 = H.strip(i["then"])
                t2 = H.strip(i["else"])
                if t1.get("k") == "tuple" and t2.get("k") == "tuple":
                    r1 = [sh.term(x) for x in t1["es"]]
                    r2 = [sh.term(x) for x in t2["es"]]
                    if sorted(r1) == ["A", "B"] and sorted(r2) == ["A", "B"] and r1 != r2:
                        if not tab["commutative"]:
                            ctx.violation("shape", "%s:swap" % path, "operands of the non-commutative %s are swapped for cache normalisation" % op, site=s["sp"])
                        sh.env[names[0]] = "A"
                        sh.env[names[1]] = "B"
                        continue
            # let (a_var, a_lo, a_hi) = get_node_info(a ..)
            if pat["k"] == "tuple" and len(pat["sub"]) == 3 and init is not None:
                ii = H.strip(init)
                cs = H.calls_in(ii)
                if cs and cs[0][0].endswith("get_node_info"):
                    node = cs[0][1]
                    arg = node["args"][0]
                    role = sh.term(arg)
                    if role in ("A", "B"):
                        for nm, suf in zip(pat["sub"], ("var?", "lo", "hi")):
                            if nm["k"] == "bind":
                                sh.env[nm["name"]] = "%s.%s" % (role, suf)
                        continue
            # let result = match (a_var, b_var) {..}
            if init is not None:
                m = H.strip(init)
                if m.get("k") == "match" and m["ty"].count("Option<u32>") == 2:
                    main = m
    if main is None:
        ctx.anchor_lost("shape", "%s: no match on the pair of top variables" % path)
        return
    # prefix table
    for c, want in tab["prefix"].items():
        key = "%s:prefix:%s" % (path, c)
        got = prefix.get(c) or prefix.get("==".join(reversed(c.split("=="))))
        if got is None:
            ctx.violation("prefix", key, "%s: terminal case `%s -> %s` is missing" % (path, c, want), site=h["span"])
        elif got != want:
            ctx.violation("prefix", key, "%s: terminal case `%s` returns %s, the %s recurrence requires %s" % (path, c, got, op, want), site=h["span"])
        else:
            ctx.ok("prefix", key)
    for c, got in prefix.items():
        cn = c if c in tab["prefix"] else "==".join(reversed(c.split("==")))
        if cn in tab["prefix"]:
            continue
        if c in PREFIX_EXTRA and PREFIX_EXTRA[c][op] == got:
            continue
        ctx.violation("prefix", "%s:prefix-extra:%s" % (path, c), "%s: unexpected early return `%s -> %s`" % (path, c, got), site=h["span"])
    # cases
    for head, pat, arm in H.arm_rows(main):
        if not isinstance(head, tuple):
            continue
        hs = tuple(x.rsplit("::", 1)[-1] for x in head)
        env = dict(sh.env)
        for i, role in enumerate(("A", "B")):
            sub = H.pat_sub(pat["sub"][i])
            if sub is not None and sub["k"] == "bind":
                env[sub["name"]] = role + ".var"
        if hs == ("Some", "Some"):
            cases = split_cases(sh, arm["body"], env)
            for cname in ("lt", "gt", "eq"):
                key = "%s:%s" % (path, cname)
                got = cases.get(cname)
                want = tab[cname]
                if got is None:
                    ctx.violation("shape", key, "%s: case %s of the top-variable comparison not found (unrecognised shape: %s)" % (path, cname, sorted(cases)), site=arm["sp"])
                elif not same_term(got, want, tab["commutative"]):
                    ctx.violation("shape", key, "%s, case A.var %s B.var: builds %s; the %s recurrence is %s" % (path, {"lt": "<", "gt": ">", "eq": "=="}[cname], got, op, want), site=arm["sp"])
                else:
                    ctx.ok("shape", key, site=arm["sp"])
                    ctx.sample({"fn": path, "case": cname, "term": got})
        elif hs in (("Some", "None"), ("None", "Some")):
            # the terminal side is Base here (Empty returned earlier)
            term_role = "B" if hs[1] == "None" else "A"
            env2 = {k: ("Base" if v == term_role else v) for k, v in env.items()}
            sh2 = Shape(path, h, F)
            got = sh2.term(arm["body"], env2)
            want = tab["a_node" if term_role == "B" else "b_node"]
            key = "%s:%s" % (path, "b-terminal" if term_role == "B" else "a-terminal")
            if not same_term(got, want, tab["commutative"]):
                ctx.violation("shape", key, "%s, %s is the Base terminal: builds %s; the %s recurrence is %s" % (path, term_role, got, op, want), site=arm["sp"])
            else:
                ctx.ok("shape", key, site=arm["sp"])


def split_cases(sh, body, env):
    """if av < bv {..} else if av > bv {..} else {..}  ->  {lt, gt, eq: term}"""
    out = {}
    e = H.strip(body)
    rest = {"lt", "gt", "eq"}
    while e is not None and e.get("k") == "if":
        c = sh.cond(e["cond"], env)
        name = {"A.var<B.var": "lt", "B.var>A.var": "lt", "A.var>B.var": "gt", "B.var<A.var": "gt",
                "A.var==B.var": "eq", "B.var==A.var": "eq"}.get(c)
        if name is None:
            return {"?" + c: ""}
        out[name] = sh.term(e["then"], env)
        rest.discard(name)
        nxt = H.strip(e["else"]) if e["else"] is not None else None
        if nxt is not None and nxt.get("k") == "if":
            e = nxt
            continue
        if nxt is not None and len(rest) == 1:
            out[rest.pop()] = sh.term(nxt, env)
        break
    return out


def parse_term(t):
    """'NODE(a,REC(b,c))' -> ('NODE', [..]) ; atoms are strings"""
    t = t.strip()
    i = t.find("(")
    if i < 0 or not t.endswith(")"):
        return t
    head = t[:i]
    if not head.replace("_", "").isalnum():
        return t
    return (head, [parse_term(x) for x in split_top(t[i + 1:-1])])


def canon(t, commutative):
    if isinstance(t, str):
        return t
    head, args = t
    args = [canon(a, commutative) for a in args]
    if head == "UNION":
        flat = []
        for a in args:
            if a.startswith("UNION(") and a.endswith(")"):
                flat.extend(split_top(a[6:-1]))
            else:
                flat.append(a)
        args = sorted(flat)
    elif head == "REC" and commutative:
        args = sorted(args)
    return "%s(%s)" % (head, ",".join(args))


def norm_term(t, commutative):
    return canon(parse_term(t), commutative)


def split_top(s):
    parts, depth, cur = [], 0, ""
    for ch in s:
        if ch == "(":
            depth += 1
        elif ch == ")":
            depth -= 1
        if ch == "," and depth == 0:
            parts.append(cur)
            cur = ""
        else:
            cur += ch
    parts.append(cur)
    return parts


def same_term(got, want, commutative):
    # in the `eq` case A.var == B.var, either name is the same variable
    g = norm_term(got, commutative)
    w = norm_term(want, commutative)
    if g == w:
        return True
    return g.replace("B.var", "A.var") == w.replace("B.var", "A.var") and "NODE(A.var,REC(A.lo,B.lo)" in w.replace(" ", "")


def analyse_product(ctx, path):
    F = ctx.facts()
    h = ctx.need_hir(path, rule="shape-product")
    item = F.fn_item(path)
    sh = Shape(path, h, F)
    for p, ty in zip(h["params"], item["inputs"]):
        if p["k"] != "bind":
            continue
        if ty.endswith("refs::ZddRef"):
            sh.env[p["name"]] = "N"
        elif ty == "u32":
            sh.env[p["name"]] = "V"
    body = h["body"]
    # let n = <get_node(node ..)>;  let result = if n.var < var {..}
    main = None
    base_ret = None
    for s in body["stmts"]:
        if s["k"] == "let" and s["pat"]["k"] == "bind" and s["init"] is not None:
            init = H.strip(s["init"])
            names = [d for d, _ in H.calls_in(init)]
            if any(n.endswith("::get_node") for n in names):
                sh.env[s["pat"]["name"]] = "N"
                continue
            if init.get("k") == "if":
                main = init
        elif s["k"] == "expr":
            e = H.strip(s["e"])
            if e.get("k") == "match" and e["ty"].endswith("refs::ZddRef"):
                for head, pat, arm in H.arm_rows(e):
                    rets = [x for x in H.walk(arm["body"]) if x.get("k") == "ret"]
                    if isinstance(head, str) and head.endswith("ZddRef::Base") and rets:
                        base_ret = sh.term(rets[0]["e"])
                    if isinstance(head, str) and head.endswith("ZddRef::Empty") and rets:
                        t = sh.term(rets[0]["e"])
                        if t != "Empty":
                            ctx.violation("shape-product", "%s:empty" % path, "product of the empty family must be empty, returns %s" % t, site=arm["sp"])
                        else:
                            ctx.ok("shape-product", "%s:empty" % path)
    if base_ret != "NODE(V,Base,Base)":
        ctx.violation("shape-product", "%s:base" % path, "{{}} x {{}, {v}} must be NODE(V,Base,Base), got %s" % base_ret, site=h["span"])
    else:
        ctx.ok("shape-product", "%s:base" % path)
    if main is None:
        ctx.anchor_lost("shape-product", "%s: no if-chain on n.var vs var" % path)
        return
    cases = {}
    e = main
    rest = {"lt", "eq", "gt"}
    while e is not None and e.get("k") == "if":
        c = sh.cond(e["cond"])
        name = {"N.var<V": "lt", "V>N.var": "lt", "N.var==V": "eq", "V==N.var": "eq", "N.var>V": "gt", "V<N.var": "gt"}.get(c)
        if name is None:
            ctx.anchor_lost("shape-product", "%s: unrecognised condition %s" % (path, c))
            return
        cases[name] = sh.term(e["then"])
        rest.discard(name)
        nxt = H.strip(e["else"]) if e["else"] is not None else None
        if nxt is not None and nxt.get("k") == "if":
            e = nxt
            continue
        if nxt is not None and len(rest) == 1:
            cases[rest.pop()] = sh.term(nxt)
        break
    for cname, want in PRODUCT_TABLE.items():
        got = cases.get(cname)
        key = "%s:%s" % (path, cname)
        if got is None:
            ctx.violation("shape-product", key, "%s: case %s not found" % (path, cname), site=main["sp"])
        elif norm_term(got, False) != norm_term(want, False):
            ctx.violation("shape-product", key, "%s, case n.var %s var: builds %s, expected %s" % (path, {"lt": "<", "eq": "==", "gt": ">"}[cname], got, want), site=main["sp"])
        else:
            ctx.ok("shape-product", key, site=main["sp"])
            ctx.sample({"fn": path, "case": cname, "term": got})


COUNT_FNS = ["varpulis_zdd::arena::ZddArena::count_ref", "varpulis_zdd::arena::ZddArena::count_ref_uncached", "varpulis_zdd::zdd::Zdd::count_rec"]
CONTAINS_FNS = ["varpulis_zdd::arena::ZddArena::contains_sorted", "varpulis_zdd::zdd::Zdd::contains_sorted"]


def analyse_count(ctx, path):
    """|Empty| = 0, |Base| = 1, |node(v, lo, hi)| = |lo| + |hi| (sum of two recursive calls, one on each child)"""
    from vpr import hirq as H
    h = ctx.need_hir(path, rule="shape-count")
    name = path.rsplit("::", 2)[-2] + "::" + path.rsplit("::", 1)[1]
    ms = H.matches_on(h["body"], lambda t: t.endswith("refs::ZddRef"))
    if not ms:
        ctx.anchor_lost("shape-count", "%s: no match over ZddRef" % name)
        return
    got = {}
    node_arm = None
    for head, pat, arm in H.arm_rows(ms[0]):
        if isinstance(head, str) and head.startswith(REF + "::"):
            v = head.rsplit("::", 1)[1]
            if v in ("Empty", "Base"):
                got[v] = H.show(H.strip(arm["body"]))
            else:
                node_arm = arm
    for v, want in (("Empty", "0"), ("Base", "1")):
        if got.get(v) == want:
            ctx.ok("shape-count", "%s:%s" % (name, v), "= %s" % want)
        else:
            ctx.violation("shape-count", "%s:%s" % (name, v), "%s counts the terminal %s as `%s`; the family %s has %s member(s)" % (name, v, got.get(v), "{}" if v == "Empty" else "{{}}", want))
    if node_arm is None:
        ctx.anchor_lost("shape-count", "%s: no Node arm" % name)
        return
    self_name = path.rsplit("::", 1)[1]
    sums = []
    for x in H.walk(node_arm["body"]):
        if x.get("k") == "bin" and x["op"] == "Add":
            def child(e):
                e = H.strip(e)
                if e.get("k") in ("mcall", "call") and (e.get("method") == self_name or str(e.get("callee", "")).endswith("::" + self_name)):
                    fs = {y["name"] for a in e["args"] for y in H.walk(a) if y.get("k") == "field" and y["name"] in ("lo", "hi")}
                    return fs
                return None
            l, r = child(x["l"]), child(x["r"])
            if l is not None and r is not None:
                sums.append((l, r))
    if any(l | r == {"lo", "hi"} and l != r for l, r in sums):
        ctx.ok("shape-count", "%s:Node" % name, "count(lo) + count(hi)", site=node_arm["sp"])
    else:
        ctx.violation("shape-count", "%s:Node" % name, "%s does not compute |node| as count(lo) + count(hi) (found %s)" % (name, sums), site=node_arm["sp"])


def analyse_contains(ctx, path):
    """membership walk: Empty -> false; Base -> all query elements consumed; node(v): v == next element -> hi and advance;
    v > next element -> false (the element was zero-suppressed away); otherwise -> lo"""
    from vpr import hirq as H
    h = ctx.need_hir(path, rule="shape-contains")
    name = path.rsplit("::", 2)[-2] + "::" + path.rsplit("::", 1)[1]
    ms = H.matches_on(h["body"], lambda t: t.endswith("refs::ZddRef"))
    if not ms:
        ctx.anchor_lost("shape-contains", "%s: no match over ZddRef" % name)
        return
    arms = {}
    for head, pat, arm in H.arm_rows(ms[0]):
        if isinstance(head, str) and head.startswith(REF + "::"):
            arms[head.rsplit("::", 1)[1]] = arm
    def ret_of(arm):
        r = [x for x in H.walk(arm["body"]) if x.get("k") == "ret"]
        return H.strip(r[0]["e"]) if r and r[0].get("e") is not None else H.strip(arm["body"])
    e = ret_of(arms["Empty"]) if "Empty" in arms else None
    if e is not None and H.show(e) == "false":
        ctx.ok("shape-contains", name + ":Empty", "false")
    else:
        ctx.violation("shape-contains", name + ":Empty", "%s: the empty family must contain nothing (returns `%s`)" % (name, H.show(e) if e else None))
    bse = ret_of(arms["Base"]) if "Base" in arms else None
    if bse is not None and bse.get("k") == "bin" and bse["op"] == "Eq" and "len()" in H.show(bse):
        ctx.ok("shape-contains", name + ":Base", H.show(bse))
    else:
        ctx.violation("shape-contains", name + ":Base", "%s: at the Base terminal the answer must be `all query elements consumed` (index == len), found `%s`" % (name, H.show(bse) if bse else None))
    nd = arms.get("Node")
    if nd is None:
        ctx.anchor_lost("shape-contains", "%s: no Node arm" % name)
        return
    # the if / else-if / else chain
    chain = []
    ifs = [x for x in H.walk(nd["body"]) if x.get("k") == "if"]
    cur = ifs[0] if ifs else None
    while cur is not None:
        chain.append((cur["cond"], cur["then"]))
        els = H.strip(cur["else"]) if cur.get("else") is not None else None
        if els is not None and els.get("k") == "if":
            cur = els
        else:
            chain.append((None, cur.get("else")))
            cur = None
    def effect(blk):
        if blk is None:
            return "?"
        for x in H.walk(blk):
            if x.get("k") == "ret":
                return "return " + H.show(x["e"]) if x.get("e") is not None else "return"
        for x in H.walk(blk):
            if x.get("k") == "assign" and x["op"] is None:
                fs = [y["name"] for y in H.walk(x["r"]) if y.get("k") == "field" and y["name"] in ("lo", "hi")]
                if fs:
                    return "go " + fs[0]
        return "?"
    def rel(c):
        if c is None:
            return "else"
        for x in H.walk(c):
            if x.get("k") == "bin" and x["op"] in ("Eq", "Gt", "Lt", "Ge", "Le", "Ne") and any(y.get("k") == "field" and y["name"] == "var" for y in H.walk(x)):
                var_left = any(y.get("k") == "field" and y["name"] == "var" for y in H.walk(x["l"]))
                op = x["op"] if var_left else {"Gt": "Lt", "Lt": "Gt", "Ge": "Le", "Le": "Ge"}.get(x["op"], x["op"])
                return "var " + op
        return "?"
    got = [(rel(c), effect(b_)) for c, b_ in chain]
    want = [("var Eq", "go hi"), ("var Gt", "return false"), ("else", "go lo")]
    if got == want:
        ctx.ok("shape-contains", name + ":Node", "var == e -> hi; var > e -> false; else -> lo", site=nd["sp"])
    else:
        ctx.violation("shape-contains", name + ":Node", "%s walks a node as %s; membership in a ZDD requires %s" % (name, got, want), site=nd["sp"])
    # the index advances exactly on the hi step
    adv = [x for x in H.walk(chain[0][1]) if x.get("k") == "assign" and x["op"] == "Add" and H.show(x["r"]) == "1"] if chain else []
    if len(adv) == 1:
        ctx.ok("shape-contains", name + ":advance", "the query index advances with the hi step")
    else:
        ctx.violation("shape-contains", name + ":advance", "%s: the query index must advance by one exactly when the hi branch is taken" % name, site=nd["sp"])


def run(ctx):
    for fn in COUNT_FNS:
        ctx.guard("shape-count", lambda fn=fn: analyse_count(ctx, fn))
    for fn in CONTAINS_FNS:
        ctx.guard("shape-contains", lambda fn=fn: analyse_contains(ctx, fn))
    for op, fns in FUNCS.items():
        for fn in fns:
            ctx.guard("shape", lambda fn=fn, op=op: analyse_binop(ctx, op, fn))
    for fn in PRODUCT:
        ctx.guard("shape-product", lambda fn=fn: analyse_product(ctx, fn))
    # operations "including after arena garbage collection": the operation caches are keyed by node ids, so every
    # replacement of the node table must clear each of them on all paths (rule shared with C07)
    from rules import C07
    ctx.guard("comut", lambda: C07.run_comut(ctx))
    # anchors must be the only recursive set operations: any other function in the crate whose name says
    # union/intersection/difference and that calls get_or_create recursively must be in the table above
    F = ctx.facts()
    known = set(sum(FUNCS.values(), [])) | set(PRODUCT)
    extra = []
    for p in F.hir_paths():
        if not p.startswith("varpulis_zdd::") or p in known:
            continue
        calls = [c for c in F.calls_from(p, nested=False)]
        rec = any((c["inst"] or c["callee"]) == p for c in calls)
        makes = any(c["callee"].endswith("UniqueTable::get_or_create") for c in calls)
        it = F.fn_item(p)
        binary = it is not None and sum(1 for t in it["inputs"] if t.endswith("refs::ZddRef")) >= 2
        if rec and makes and binary:
            extra.append(p)
    for p in extra:
        ctx.violation("shape", "%s:untabled" % p, "recursive binary ZDD operation %s is not covered by the recurrence table" % p)
    ctx.floor("shape", "recursive set operations analysed", len(known), 10)
