"""C18 — multi-worker simulate equals one worker (stateless classification soundness, partitioner agreement)."""
import re

from vpr import hirq as H
from vpr.prov import Slicer

EXPLANATION = (
    "(a) Stateless classification is sound: the RuntimeOp variants accepted by Engine::is_stateless are read from its HIR "
    "(`matches!` pattern); for each, the runtime ADTs reachable from the variant's payload type are collected and the field "
    "access index must show no write / mutable borrow of any of their fields in a function reachable from the four engine "
    "entry points (a written payload = per-stream state that round-robin splitting would fork). is_stateless must also test "
    "every StreamDefinition field that holds runtime state and is mutated on the processing path (table confirmed by "
    "reading; new mutated Option<...> fields are reported as unclassified). (b) Partitioner agreement, on MIR of the CLI's "
    "run_simulation: every bucket index (`Hasher::finish`) in the multi-worker branches must hash a value whose provenance "
    "is Value::to_partition_key — the function every partitioned operator of the engine uses to name a partition — not the "
    "raw Value (whose Hash separates `5`, `5.0` and \"5\" that the engine puts into one partition); events lacking the key "
    "share one engine partition, so their bucket must not depend on the event; the hasher must have fixed keys (R-DET: "
    "DefaultHasher::new, not RandomState)."
)
DECIDED = ["no operator classified stateless carries mutated state", "the CLI's bucket function factors through the engine's partition-key function"]
NOT_DECIDED = ["rayon scheduling and the output multiset", "engine-global state mutated by user functions"]

R = "varpulis_runtime::"
E = R + "engine::Engine::"
OP = R + "engine::types::RuntimeOp"
SD = R + "engine::types::StreamDefinition"
ENTRIES = [E + "process_inner", E + "process_batch", E + "process_batch_sync", E + "process_batch_shared"]
STATE_FIELDS = {"sase_engine", "join_buffer", "hamlet_aggregator", "shared_hamlet_ref", "operations"}
# StreamDefinition fields mutated while processing that is_stateless need not test, one reason each
FIELD_EXCEPTIONS = {
    "pst_forecaster": "Some only when the stream has a Forecast op, which is not in the stateless list (operations is tested)",
    "last_raw_event": "written only under pst_forecaster.is_some()",
}


def variant_fields(F, adt, variant=None):
    """field records of a struct, or of one / all variants of an enum"""
    it = F.struct(adt)
    if not it:
        return None
    out = []
    for v in it["variants"]:
        if variant is None or v["n"] == variant:
            out.extend(v["fields"])
    return out


def reachable_adts(F, ty, seen):
    # a trait object owns no named ADT: the types printed after `dyn` are its methods' parameter / return types
    # (Box<dyn Fn(&SharedEvent) -> bool> does not own an Event); FnMut objects are handled by the caller
    ty = ty.split("dyn ", 1)[0]
    for name in re.findall(r"varpulis_runtime::[A-Za-z0-9_:]+", ty):
        if name in seen:
            continue
        fs = variant_fields(F, name)
        if fs is None:
            continue
        seen.add(name)
        for f in fs:
            reachable_adts(F, f["ty"], seen)
    return seen


def run_stateless(ctx):
    F = ctx.facts()
    cg = ctx.cg()
    h = ctx.need_hir(E + "is_stateless", rule="stateless")
    allowed = set()
    for m in H.matches_on(h["body"], lambda t: t.endswith("RuntimeOp") or "RuntimeOp" in t):
        for a in m["arms"]:
            if H.show(H.strip(a["body"])) != "true":
                continue
            for p in H.pat_alts(a["pat"]):
                hd = H.pat_head(p)
                if isinstance(hd, str) and hd.startswith(OP + "::"):
                    allowed.add(hd.rsplit("::", 1)[1])
    ctx.floor("stateless", "RuntimeOp variants accepted by is_stateless", len(allowed), 8)
    reach = set()
    for e in ENTRIES:
        if F.mir(e) is None:
            ctx.anchor_lost("stateless", "entry point %s not found" % e)
            return
        reach |= cg.reach(e, within=lambda f: f.startswith(R) or f.startswith("<" + R))
    from vpr.facts import root_fn
    writes = {}
    for r in F.fieldacc:
        if r["k"] in ("w", "m", "wt", "mt") and root_fn(r["f"]) in reach:
            writes.setdefault(r["adt"], []).append(r)
    n_payload = 0
    for v in sorted(allowed):
        fs = variant_fields(F, OP, v)
        if fs is None:
            ctx.anchor_lost("stateless", "variant RuntimeOp::%s not found in the item facts" % v)
            continue
        n_payload += len(fs)
        adts = set()
        for f in fs:
            reachable_adts(F, f["ty"], adts)
        bad = [(a, w) for a in sorted(adts) for w in writes.get(a, [])]
        if any("FnMut" in f["ty"] for f in fs):
            ctx.violation("stateless", "op:" + v, "RuntimeOp::%s is classified stateless but its payload is an FnMut object (a closure with mutable captured state)" % v)
        elif bad:
            a, w = bad[0]
            ctx.violation("stateless", "op:" + v, "RuntimeOp::%s is classified stateless but its payload carries state: %s.%s is written in %s — round-robin splitting gives each worker its own copy of that state" % (
                v, a.rsplit("::", 1)[1], w["field"], root_fn(w["f"]).rsplit("::", 1)[1]), site=w["sp"])
        else:
            ctx.ok("stateless", "op:" + v, "payload ADTs %s: no field written on the processing path" % (sorted(x.rsplit("::", 1)[1] for x in adts) or "(none)"))
    ctx.floor("stateless", "payload fields of the accepted variants (each accepted variant carries one)", n_payload, len(allowed))
    ctx.sample({"stateless_ops": sorted(allowed)})
    # state-holding stream fields
    tested = set()
    for x in H.walk(h["body"]):
        if x.get("k") == "field" and x.get("adt") == SD:
            tested.add(x["name"] if "name" in x else x.get("f"))
    mutated = {}
    for r in F.fieldacc:
        if r["adt"] == SD and r["k"] in ("w", "m", "wt", "mt") and root_fn(r["f"]) in reach:
            mutated.setdefault(r["field"], r)
    ctx.floor("stateless", "StreamDefinition fields mutated on the processing path", len(mutated), 4)
    for f in sorted(set(mutated) | STATE_FIELDS):
        if f in tested:
            ctx.ok("stateless", "field:" + f, "tested by is_stateless")
        elif f in FIELD_EXCEPTIONS:
            ctx.ok("stateless", "field:" + f, "exception: " + FIELD_EXCEPTIONS[f], nontrivial=False)
        else:
            ctx.violation("stateless", "field:" + f, "StreamDefinition.%s holds state mutated while processing (%s) but is_stateless does not look at it: a stream using it is split round-robin across workers" % (
                f, mutated[f]["f"].rsplit("::", 2)[-2] if f in mutated else "confirmed state holder"), site=mutated[f]["sp"] if f in mutated else None)


def run_partitioner(ctx):
    F = ctx.facts()
    fns = [p for p in F.mir_paths() if re.match(r"^varpulis@bin::run_simulation(::\{closure#\d+\})*$", p)]
    n = 0
    counts = {"key": 0, "missing": 0}
    for p in fns:
        b = ctx.body(p)
        if b is None:
            continue
        fin = [(bb, t) for bb, t in b.calls() if t["callee"] == "core::hash::Hasher::finish"]
        for bb, t in fin:
            n += 1
            inst = t.get("inst") or ""
            # which hasher type
            if "DefaultHasher" not in inst and "FxHasher" not in inst and "SipHasher" not in inst:
                ctx.violation("partitioner", "hasher#%d" % n, "bucket index computed with %s: not a fixed-key hasher, the distribution (and with it which events share a worker) is not a function of the key alone" % inst, site=t["sp"])
                continue
            hl = Slicer(b).origins([t["args"][0]])
            if hl.has_call(lambda c: "RandomState" in c or c.endswith("build_hasher")):
                ctx.violation("partitioner", "hasher#%d" % n, "the hasher is built from a RandomState (per-process random keys)", site=t["sp"])
                continue
            # the Hash::hash calls feeding this hasher: those dominating the finish with the same hasher local
            root = b.desc(t["args"][0])
            # every Hash::hash on the same hasher from which this finish is reachable (hashes in different match / if arms
            # each feed it on their own path), up to the hasher's construction
            news = [nb for nb, nt in b.calls() if nt["callee"].endswith(("DefaultHasher::new", "DefaultHasher::default")) and b.dominates(nb, bb)]
            start = max(news) if news else 0
            feeds = [(hb, ht) for hb, ht in b.calls() if ht["callee"] == "core::hash::Hash::hash" and len(ht["args"]) > 1 and b.desc(ht["args"][1]) == root
                     and b.dominates(start, hb) and b.reaches(hb, bb)]
            if not feeds:
                ctx.violation("partitioner", "feed#%d" % n, "no Hash::hash call feeds this bucket hash", site=t["sp"])
                continue
            # a path-dependent feed: every alternative has to hash the engine's key string
            raw = [(hb, ht) for hb, ht in feeds if not Slicer(b).origins([ht["args"][0]]).has_call("Value::to_partition_key")]
            if len(feeds) > 1 and raw:
                hb, ht = raw[0]
            else:
                hb, ht = feeds[-1]
            o = Slicer(b).origins([ht["args"][0]])
            what = b.desc(ht["args"][0])
            hty = (ht.get("inst") or "").split(" as ")[0].lstrip("<")
            via_key = o.has_call("Value::to_partition_key")
            from_event_get = o.has_call("Event::get")
            if via_key:
                counts["key"] += 1
                ctx.ok("partitioner", "key#%d" % counts["key"], "hashes Value::to_partition_key(..) (%s)" % hty, site=ht["sp"])
            elif from_event_get or "value::Value" in hty:
                counts["key"] += 1
                ctx.violation("partitioner", "key#%d" % counts["key"], "the bucket of an event is the hash of the raw key Value (%s): `5`, `5.0` and \"5\" are ONE partition for every partitioned operator of the engine (Value::to_partition_key) but hash to different workers, so one partition's state is split" % what, site=ht["sp"])
            else:
                counts["missing"] += 1
                ctx.violation("partitioner", "missing-key#%d" % counts["missing"], "an event without the partition key is bucketed by hash(%s): the engine keeps all such events in one default partition, here they are spread over the workers" % what, site=ht["sp"])
    ctx.floor("partitioner", "bucket hashes (Hasher::finish) in run_simulation", n, 2)
    ctx.sample({"bucket_hashes": n})


def run(ctx):
    ctx.guard("stateless", lambda: run_stateless(ctx))
    ctx.guard("partitioner", lambda: run_partitioner(ctx))
