"""C41 — the parser terminates without panicking (panic containment, who-may-call, must-precede, loop bounds)."""
import os
import re

from vpr.facts import root_fn
from vpr.guards import comparison_guards
from vpr.arith import sites as arith_sites

EXPLANATION = (
    "(a) containment on MIR of varpulis_parser::pest_parser::parse: the inner parser runs on a spawned thread (closure passed "
    "to thread::Builder::spawn calls parse_inner) and the JoinHandle::join result is turned into Err by unwrap_or_else — "
    "never unwrap/expect — so a panic inside parsing cannot escape; who-may-call: parse_inner is called only from that "
    "closure; no profile of the workspace manifest sets panic = \"abort\" (which would void the containment). (b) R-ORDER in "
    "parse_inner: check_nesting_depth dominates the pest parse call (bounded recursion depth) and the loop expansion "
    "precedes both; expansion is bounded: expand_one_pass tests the range against MAX_LOOP_ITERATIONS on the path to the "
    "copy loop and expand_declaration_loops iterates at most MAX_EXPANSION_PASSES times. Panicking arithmetic sites inside "
    "the parser crate are listed in the evidence as contained (they become Err). (c) the depth pre-check skips string "
    "literals the way the grammar ends them: a backslash consumes the next byte, and the closing quote is never decided by "
    "looking at the previous byte."
)
DECIDED = ["a panic in parsing is converted into an error", "recursion depth and expansion size are bounded before the recursive-descent parse", "the depth pre-check's string skipping handles escape pairs"]
NOT_DECIDED = ["error positions lying inside the original (pre-processed vs original) input", "time bound of the PEG parser within the nesting limit"]

P = "varpulis_parser::"
PARSE = P + "pest_parser::parse"
INNER = P + "pest_parser::parse_inner"


def run_containment(ctx):
    F = ctx.facts()
    b = ctx.need_body(PARSE, rule="containment")
    spawns = [(bb, t) for bb, t in b.calls() if t["callee"].startswith("std::thread::") and t["callee"].rsplit("::", 1)[1] in ("spawn", "spawn_scoped", "spawn_unchecked")]
    joins = [(bb, t) for bb, t in b.calls() if t["callee"].endswith("JoinHandle::<T>::join")]
    if not spawns or not joins:
        ctx.violation("containment", "spawn-join", "parse() no longer runs the parser on a spawned thread and joins it (spawn %d, join %d): a panic in the parser unwinds into the caller" % (len(spawns), len(joins)), site=b.js["span"])
        return
    # the spawned closure calls parse_inner
    closure_calls = [c for c in F.calls_from(PARSE, nested=True) if "{closure" in c["f"]]
    if any((c["inst"] or c["callee"]) == INNER for c in closure_calls):
        ctx.ok("containment", "inner-on-thread")
    else:
        ctx.violation("containment", "inner-on-thread", "the spawned closure does not run parse_inner", site=spawns[0][1]["sp"])
    direct = [c for c in F.calls_from(PARSE, nested=False) if (c["inst"] or c["callee"]) == INNER]
    if direct:
        ctx.violation("containment", "no-direct-call", "parse() calls parse_inner directly on the caller's thread", site=direct[0]["sp"])
    else:
        ctx.ok("containment", "no-direct-call")
    # join result handling
    jb = joins[0][0]
    after = [(bb, t) for bb, t in b.calls() if b.dominates(jb, bb) and bb != jb]
    names = [t["callee"] for _, t in after]
    if any(n.endswith("Result::<T, E>::unwrap") or n.endswith("Result::<T, E>::expect") for n in names):
        ctx.violation("containment", "join-mapped", "the join result is unwrapped: a panicking parser thread panics the caller", site=joins[0][1]["sp"])
    elif any(n.endswith("::unwrap_or_else") or n.endswith("::map_err") or n.endswith("::unwrap_or") for n in names) or any(t["k"] == "switch" for t in [b.term(x) for x in b.live if b.dominates(jb, x)]):
        ctx.ok("containment", "join-mapped", "join() result mapped to an error value")
    else:
        ctx.violation("containment", "join-mapped", "the join result is not turned into an error (unrecognised handling)", site=joins[0][1]["sp"])
    # who may call parse_inner
    callers = {root_fn(c["f"]) for c in F.calls_to(INNER)}
    if callers <= {PARSE}:
        ctx.ok("containment", "who-calls-inner", sorted(callers))
    else:
        ctx.violation("containment", "who-calls-inner", "parse_inner is also called from %s, outside the panic-containing wrapper" % sorted(callers - {PARSE}))
    # workspace profiles
    try:
        txt = open(os.path.join(os.environ.get("VERIF_REPO", "/repo"), "Cargo.toml")).read()
    except OSError:
        txt = ""
    if re.search(r'^\s*panic\s*=\s*"abort"', txt, re.M):
        ctx.violation("containment", "panic-abort", "a profile in the workspace Cargo.toml sets panic = \"abort\": a panicking parser thread aborts the process instead of being joined")
    else:
        ctx.ok("containment", "panic-abort", "no profile sets panic = abort")


def run_order(ctx):
    F = ctx.facts()
    b = ctx.need_body(INNER, rule="bounds")
    depth = b.call_blocks({P + "pest_parser::check_nesting_depth"})
    pest = [bb for bb, t in b.calls() if t["callee"].endswith("Parser::parse") and "pest" in t["callee"]]
    exp = b.call_blocks({P + "expand::expand_declaration_loops"})
    if not depth or not pest:
        ctx.violation("bounds", "nesting-before-pest", "parse_inner: nesting pre-check (%d) or pest call (%d) not found" % (len(depth), len(pest)), site=b.js["span"])
    elif all(b.blocks_dominate(depth, p) for p in pest):
        ctx.ok("bounds", "nesting-before-pest", site=b.term(pest[0])["sp"])
    else:
        ctx.violation("bounds", "nesting-before-pest", "the recursive-descent parse can start without the nesting-depth pre-check: deeply nested input overflows the parser thread's stack (a stack overflow aborts the process; it is not a catchable panic)", site=b.term(pest[0])["sp"])
    if exp and depth and all(b.blocks_dominate(exp, d) for d in depth):
        ctx.ok("bounds", "expand-before-check", "the depth check sees the expanded text")
    else:
        ctx.violation("bounds", "expand-before-check", "loop expansion does not precede the nesting check (the check would not see expanded text)")
    # expansion bounds
    eb = ctx.need_body(P + "expand::expand_one_pass", rule="bounds")
    bounded = False
    for bb in sorted(eb.live):
        for nf, g in comparison_guards(eb, bb):
            pass
    for bb in sorted(eb.live):
        t = eb.term(bb)
        if t["k"] == "switch":
            r = eb.chase(t["discr"])
            if r[0] == "binop" and r[1].get("op") in ("Gt", "Ge", "Lt", "Le"):
                txt = " ".join(eb.desc(o) for o in r[1]["o"])
                if "MAX_LOOP_ITERATIONS" in txt or "10000" in txt:
                    bounded = True
    if bounded:
        ctx.ok("bounds", "loop-iterations", "range size tested against MAX_LOOP_ITERATIONS")
    else:
        ctx.violation("bounds", "loop-iterations", "expand_one_pass no longer tests the loop range against MAX_LOOP_ITERATIONS: `for i in 0..10000000000:` expands without bound", site=eb.js["span"])
    db = ctx.need_body(P + "expand::expand_declaration_loops", rule="bounds")
    rng = [s for bb in sorted(db.live) for s in db.stmts(bb) if s["k"] == "agg" and s.get("agg", "").endswith("ops::range::Range")]
    if any("MAX_EXPANSION_PASSES" in " ".join(db.desc(o) for o in s["o"]) or "10_usize" in " ".join(db.desc(o) for o in s["o"]) for s in rng) and not any(db.term(x)["k"] == "goto" and db.term(x).get("loop") and not rng for x in db.live):
        ctx.ok("bounds", "expansion-passes", "passes bounded by MAX_EXPANSION_PASSES")
    else:
        ctx.violation("bounds", "expansion-passes", "expand_declaration_loops is not a bounded loop over 0..MAX_EXPANSION_PASSES", site=db.js["span"])
    # contained arithmetic sites (informational)
    n = 0
    for p in F.mir_paths():
        if p.startswith(P) and ("optimize" in p or "expand" in p or "indent" in p):
            pb = ctx.body(p)
            n += len(arith_sites(pb, types={"i64", "u64", "i32", "u32"}))
    ctx.note("panicking integer arithmetic sites in expand/optimize/indent (contained by the join wrapper): %d" % n)
    ctx.sample({"contained_arith_sites": n})


def run_scanner(ctx):
    """the nesting pre-check only bounds what it can see: brackets inside string literals are skipped, so the scanner must
    find the END of a literal exactly as the grammar does — a backslash escapes the NEXT byte (skip two), and the closing
    quote is not decided by looking at the previous byte (`"C:\\\\"` ends at its last quote; a look-behind scanner takes it for
    an escaped quote, stays in string mode and never counts the brackets that follow)"""
    from vpr import hirq as H
    fn = P + "pest_parser::check_nesting_depth"
    h = ctx.need_hir(fn, rule="bounds")
    BSL, QUO = ("92",), ("34",)  # byte literals are dumped by value: backslash, double quote

    def is_lit(e, names):
        e = H.strip(e)
        return e is not None and e.get("k") == "lit" and str(e["v"].get("v")) in names

    # loops nested in an `if <byte> == '"'`
    str_loops = []
    for x in H.walk(h["body"]):
        if x.get("k") == "if":
            c = H.strip(x["cond"])
            if c.get("k") == "bin" and c["op"] == "Eq" and (is_lit(c["l"], QUO) or is_lit(c["r"], QUO)):
                str_loops += [y for y in H.walk(x["then"]) if y.get("k") == "loop"]
    if not str_loops:
        ctx.anchor_lost("bounds", "check_nesting_depth: no loop skipping a double-quoted string found (quote literal %s)" % (QUO,))
        return
    lp = str_loops[0]
    pair = False
    lookbehind = None
    for x in H.walk(lp["body"]):
        if x.get("k") == "if":
            c = H.strip(x["cond"])
            if c.get("k") == "bin" and c["op"] == "Eq" and (is_lit(c["l"], BSL) or is_lit(c["r"], BSL)):
                if any(y.get("k") == "assign" and y["op"] == "Add" and H.show(y["r"]) == "2" for y in H.walk(x["then"])):
                    pair = True
        if x.get("k") == "match":
            # `match bytes[i] { b'\\' => { i += 2; .. } b'"' => .. }` — the same test written as a match
            for arm in x["arms"]:
                if any(H.pat_str(alt).strip() in BSL for alt in H.pat_alts(arm["pat"])):
                    if any(y.get("k") == "assign" and y["op"] == "Add" and H.show(y["r"]) == "2" for y in H.walk(arm["body"])):
                        pair = True
        if x.get("k") == "index":
            i_ = H.strip(x["i"])
            if i_.get("k") == "bin" and i_["op"] == "Sub":
                lookbehind = x
    if lookbehind is not None:
        ctx.violation("bounds", "string-escape-pair", "the string skipper of check_nesting_depth decides whether a quote is escaped by looking at the previous byte (`%s`): a literal that ends in an escaped backslash is never closed, the brackets after it are invisible to the depth limit and reach the recursive-descent parser unbounded" % H.show(lookbehind)[:30], site=lookbehind["sp"])
    elif pair:
        ctx.ok("bounds", "string-escape-pair", "a backslash inside a literal skips the escaped byte with it", site=lp["sp"])
    else:
        ctx.violation("bounds", "string-escape-pair", "the string skipper of check_nesting_depth does not skip the byte after a backslash: an escaped quote ends the literal early (or never), and the depth limit counts / misses brackets that are inside / outside literals", site=lp["sp"])


def run(ctx):
    ctx.guard("bounds", lambda: run_scanner(ctx))
    ctx.guard("containment", lambda: run_containment(ctx))
    ctx.guard("bounds", lambda: run_order(ctx))
