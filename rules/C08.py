"""C08 — numeric comparisons for every int/float mix (R-ARMS)."""
from vpr import hirq as H

EXPLANATION = (
    "R-ARMS over the type-checked HIR: every `match` on varpulis_core::ast::BinOp whose ordering rows dispatch on "
    "(&Value,&Value) must handle all four {Int,Float}x{Int,Float} pairs in each of Lt/Le/Gt/Ge, with the Rust operator the "
    "row names, operands in pattern order and the integer side widened to f64; the SASE comparator (values_compare / "
    "compare_values over CompareOp) is checked the same way. A missing pair falls to the wildcard arm, i.e. the comparison "
    "yields no value for that operand mix on every input."
)
DECIDED = [
    "which operand-type pairs each ordering operator handles in every evaluation context",
    "operator of the arm equals the operator of the row; operands not swapped; int side cast to f64",
    "CompareOp -> Ordering table of the pattern matcher",
]
NOT_DECIDED = ["exactness of i64 as f64 beyond 2^53", "NaN ordering semantics"]

ORD = {"Lt": "Lt", "Le": "Le", "Gt": "Gt", "Ge": "Ge"}
VAL = "varpulis_core::value::Value::"
NUM = ("Int", "Float")


def is_value_pair_ty(ty):
    return ty.count("varpulis_core::value::Value") == 2 and ty.startswith("(")


def relational_bins(e):
    return [x for x in H.walk(e) if x.get("k") == "bin" and x["op"] in ("Lt", "Le", "Gt", "Ge", "Eq", "Ne")]


def casts_f64(e):
    return any(x.get("k") == "cast" and x["ty"] == "f64" for x in H.walk(e))


def casts_int(e):
    return any(x.get("k") == "cast" and x["ty"] in ("i64", "i32", "u64", "isize", "usize") for x in H.walk(e))


def check_pair_match(ctx, fn, opname, vm, kind):
    """vm: match over (&Value,&Value); kind: 'bin' (body is `l OP r`) or 'cmp' (a.cmp(b)/partial_cmp)"""
    handled = {}
    for head, pat, arm in H.arm_rows(vm):
        if not isinstance(head, tuple) or len(head) != 2:
            continue
        l, r = head
        if l.startswith(VAL) and r.startswith(VAL):
            handled.setdefault((l[len(VAL):], r[len(VAL):]), (pat, arm))
    for a in NUM:
        for b in NUM:
            key = "%s:%s:(%s,%s)" % (fn, opname, a, b)
            if (a, b) not in handled:
                ctx.violation("arms", key, "operator %s in %s has no arm for (%s, %s): the pair falls to the wildcard arm and the comparison yields no value" % (opname, fn, a, b), site=vm["sp"])
                continue
            pat, arm = handled[(a, b)]
            lb = H.pat_binds(pat["sub"][0])
            rb = H.pat_binds(pat["sub"][1])
            body = arm["body"]
            if kind == "bin":
                bins = relational_bins(body)
                if len(bins) != 1:
                    ctx.violation("operator", key, "arm (%s,%s) of %s: expected exactly one relational operator, found %d" % (a, b, opname, len(bins)), site=arm["sp"])
                    continue
                bn = bins[0]
                lhs, rhs = bn["l"], bn["r"]
                mirror = {"Lt": "Gt", "Gt": "Lt", "Le": "Ge", "Ge": "Le"}
                if bn["op"] == mirror.get(opname) and any(H.uses_local(lhs, n) for n in rb) and any(H.uses_local(rhs, n) for n in lb):
                    lhs, rhs = rhs, lhs  # `b > a` is `a < b`: mirrored operator with swapped operands is the row's own comparison
                elif bn["op"] != opname:
                    ctx.violation("operator", key, "arm (%s,%s) of row %s evaluates `%s`" % (a, b, opname, H.show(bn)), site=bn["sp"])
                    continue
            else:
                ms = [x for x in H.walk(body) if x.get("k") == "mcall" and x["method"] in ("cmp", "partial_cmp")]
                if len(ms) != 1:
                    ctx.violation("operator", key, "arm (%s,%s): expected one cmp/partial_cmp call" % (a, b), site=arm["sp"])
                    continue
                lhs, rhs = ms[0]["recv"], ms[0]["args"][0]
            l_ok = any(H.uses_local(lhs, n) for n in lb) and not any(H.uses_local(lhs, n) for n in rb)
            r_ok = any(H.uses_local(rhs, n) for n in rb) and not any(H.uses_local(rhs, n) for n in lb)
            if not (l_ok and r_ok):
                ctx.violation("operands", key, "arm (%s,%s) of %s: operands are not (left, right) in order: %s vs %s" % (a, b, opname, H.show(lhs), H.show(rhs)), site=arm["sp"])
                continue
            if a != b:
                int_side, flt_side = (lhs, rhs) if a == "Int" else (rhs, lhs)
                if not casts_f64(int_side) or casts_int(flt_side) or casts_int(int_side):
                    ctx.violation("widening", key, "mixed arm (%s,%s) of %s must widen the integer to f64: %s" % (a, b, opname, H.show(body)), site=arm["sp"])
                    continue
            ctx.ok("arms", key, site=arm["sp"])
            if a != b:
                ctx.sample({"fn": fn, "row": opname, "pair": [a, b], "arm": H.show(body)[:120], "site": arm["sp"]})


def run(ctx):
    F = ctx.facts()
    n_opmatch = 0
    n_cmp = 0
    for path in F.hir_paths():
        if not path.startswith(("varpulis_runtime::", "varpulis_core::", "varpulis_cluster::", "varpulis_cli::", "varpulis@bin::")):
            continue
        h = F.hir(path)
        for m in H.matches_on(h["body"], lambda t: "varpulis_core::ast::BinOp" in t and "Expr" not in t):
            rows = {}
            for head, pat, arm in H.arm_rows(m):
                if isinstance(head, str) and head.startswith("varpulis_core::ast::BinOp::"):
                    rows[head.rsplit("::", 1)[1]] = arm
            ordrows = {o: a for o, a in rows.items() if o in ORD}
            # is this an *evaluating* match (ordering rows dispatch on a Value pair)?
            pair_rows = {}
            for o, arm in ordrows.items():
                body = H.strip(arm["body"])
                if body.get("k") == "match" and is_value_pair_ty(body["ty"]):
                    pair_rows[o] = body
            if not pair_rows:
                continue
            n_opmatch += 1
            for o in ORD:
                if o not in ordrows:
                    ctx.violation("row", "%s:%s" % (path, o), "evaluator %s has no row for ordering operator %s (sibling rows exist)" % (path, o), site=m["sp"])
                elif o not in pair_rows:
                    ctx.violation("row", "%s:%s" % (path, o), "row %s of %s does not dispatch on the operand pair like its siblings (unrecognised shape)" % (o, path), site=ordrows[o]["sp"])
                else:
                    check_pair_match(ctx, path, o, pair_rows[o], "bin")
    ctx.floor("arms", "evaluating matches on BinOp with ordering rows", n_opmatch, 2)
    run_comparator(ctx)


def run_comparator(ctx):
    """the pattern matcher's comparator (shared with C01: a step filter is decided by it)"""
    F = ctx.facts()
    n_cmp = 0
    for path in F.find_fns(r"^varpulis_runtime::sase::", "hir"):
        h = F.hir(path)
        # comparator functions: match on a Value pair producing Option<Ordering>
        it = F.fn_item(path)
        if it and "core::cmp::Ordering" in it["output"] and "Option" in it["output"]:
            for m in H.matches_on(h["body"], is_value_pair_ty):
                n_cmp += 1
                check_pair_match(ctx, path, "cmp", m, "cmp")
    ctx.floor("arms", "Value-pair comparator returning Option<Ordering>", n_cmp, 1)

    # CompareOp -> Ordering table
    want = {"Lt": {"Less"}, "Le": {"Less", "Equal"}, "Gt": {"Greater"}, "Ge": {"Greater", "Equal"}}
    n_tab = 0
    for path in F.find_fns(r"^varpulis_runtime::sase::", "hir"):
        h = F.hir(path)
        for m in H.matches_on(h["body"], lambda t: t.endswith("sase::CompareOp")):
            rows = {}
            for head, pat, arm in H.arm_rows(m):
                if isinstance(head, str) and "CompareOp::" in head:
                    rows[head.rsplit("::", 1)[1]] = arm
            if not set(want) <= set(rows):
                continue
            # only the table that maps to Ordering
            txt = {o: ordering_variants(rows[o]["body"]) for o in want}
            if not any(txt.values()):
                continue
            # evaluate the arm on {Less, Equal, Greater} where its form is recognised (handles negated / closure forms such as
            # `.is_some_and(|o| o != Greater)`, which only MENTION an ordering); the syntactic reading is the fallback
            from rules import C09 as _c09
            for o in want:
                vals = {i: _c09.ord_eval(rows[o]["body"], i) for i in _c09.ORD}
                if all(v is not None for v in vals.values()):
                    txt[o] = {i for i, v in vals.items() if v}
            n_tab += 1
            for o, exp in want.items():
                key = "%s:%s" % (path, o)
                if txt[o] != exp:
                    ctx.violation("ordering-table", key, "CompareOp::%s accepts orderings %s, expected %s" % (o, sorted(txt[o]), sorted(exp)), site=rows[o]["sp"])
                else:
                    ctx.ok("ordering-table", key, site=rows[o]["sp"])
    ctx.floor("ordering-table", "CompareOp -> Ordering dispatch", n_tab, 1)


def ordering_variants(e):
    out = set()

    def pat_vars(p):
        if p is None:
            return
        k = p["k"]
        if k == "variant":
            nm = p["path"].split(":", 1)[1]
            if nm.startswith("core::cmp::Ordering::"):
                out.add(nm.rsplit("::", 1)[1])
            for s in p.get("sub", []) or []:
                pat_vars(s)
        elif k in ("tuple",):
            for s in p["sub"]:
                pat_vars(s)
        elif k == "or":
            for s in p["alts"]:
                pat_vars(s)
        elif k in ("ref", "bind"):
            pat_vars(p["sub"])

    for x in H.walk(e):
        if x.get("k") == "path" and "core::cmp::Ordering::" in x["res"]:
            out.add(x["res"].rsplit("::", 1)[1])
        if x.get("k") == "match":
            for a in x["arms"]:
                pat_vars(a["pat"])
        if x.get("k") == "letcond":
            pat_vars(x["pat"])
    return out
