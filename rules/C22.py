"""C22 — tenant / pipeline metadata survives restarts (persist-after-mutate, snapshot field coverage, write ordering)."""
from vpr.facts import root_fn
from vpr.prov import Slicer, forward_uses

EXPLANATION = (
    "(a) R-ORDER on MIR of the CLI API handlers: every handler that calls a pipeline mutator of a tenant (deploy_pipeline*, "
    "remove_pipeline, reload_pipeline) calls TenantManager::persist_if_needed on a block dominated by the mutator call, "
    "before replying; create_tenant / remove_tenant persist inside the manager (persist_tenant_to_store / "
    "delete_tenant_state reached). (b) R-FIELDCOV on the snapshot types: Tenant::snapshot / Pipeline::snapshot fill every "
    "snapshot field from the live object and restore_tenant_from_snapshot / restore_pipeline_from_snapshot read every "
    "snapshot field back (name, api_key, quota, usage, pipelines; id, name, source, status), status flowing into the "
    "restored pipeline. (c) R-ORDER in the store writers: the tenant snapshot is put before the index is updated, and the "
    "snapshot is deleted before the index entry is removed, so the index never names a tenant that was not written. "
    "(d) That order lets a crash leave an index entry whose snapshot is already gone: recover() must skip such an entry — "
    "no helper that turns a missing `tenant:<id>` key into an error may have its error flow to recover()'s return. "
    "(e) serde attribute symmetry on TenantSnapshot and its nested types."
)
DECIDED = ["every acknowledged pipeline mutation is followed by a persist before the reply", "snapshot <-> live object field coverage", "snapshot-before-index ordering", "recovery tolerates the dangling index entry that the delete order can leave", "snapshot types round-trip through serde"]
NOT_DECIDED = ["store I/O failures (persist_if_needed only logs them)", "crash between the snapshot put and the index put (in-flight operation may be missing or present by the statement)"]

T = "varpulis_runtime::tenant::"
API = "varpulis_cli::api::"
MUTATORS = ("::deploy_pipeline", "::deploy_pipeline_with_metadata", "::remove_pipeline", "::reload_pipeline", "::deploy_pipeline_with_id", "::deploy_pipeline_on_tenant")
PERSIST = T + "TenantManager::persist_if_needed"


def run_handlers(ctx):
    F = ctx.facts()
    n = 0
    for p in F.mir_paths():
        if not p.startswith(API + "handle_") or not p.endswith("::{closure#0}"):
            continue
        b = ctx.body(p)
        muts = [(bb, t) for bb, t in b.calls() if (t["inst"] or t["callee"]).startswith((T + "Tenant::", T + "TenantManager::")) and (t["inst"] or t["callee"]).endswith(MUTATORS)]
        if not muts:
            continue
        n += 1
        name = root_fn(p).rsplit("::", 1)[1]
        persists = b.call_blocks({PERSIST})
        mb = [bb for bb, _ in muts]
        if not persists:
            ctx.violation("persist-after-mutate", name, "%s changes a tenant's pipelines (%s) but never calls persist_if_needed: the acknowledged change is lost on restart" % (name, muts[0][1]["callee"].rsplit("::", 1)[1]), site=muts[0][1]["sp"])
            continue
        good = [pb for pb in persists if b.blocks_dominate(mb, pb)]
        if good:
            ctx.ok("persist-after-mutate", name, site=b.term(good[0])["sp"])
            ctx.sample({"handler": name, "mutator": muts[0][1]["callee"].rsplit("::", 1)[1], "persist_at": b.term(good[0])["sp"]})
        else:
            ctx.violation("persist-after-mutate", name, "%s persists before (or independently of) the pipeline mutation it acknowledges" % name, site=b.term(persists[0])["sp"])
    ctx.floor("persist-after-mutate", "API handlers that mutate tenant pipelines", n, 3)
    cg = ctx.cg()
    for fn, must in ((T + "TenantManager::create_tenant", T + "TenantManager::persist_tenant_to_store"), (T + "TenantManager::remove_tenant", T + "TenantManager::delete_tenant_state")):
        r = cg.reach(fn, within=lambda f: f.startswith(T))
        if must in r:
            ctx.ok("persist-after-mutate", fn.rsplit("::", 1)[1])
        else:
            ctx.violation("persist-after-mutate", fn.rsplit("::", 1)[1], "%s does not reach %s" % (fn, must))


def run_fields(ctx):
    F = ctx.facts()
    pairs = (
        (T + "TenantSnapshot", T + "Tenant::snapshot", T + "TenantManager::restore_tenant_from_snapshot", {"created_at_ms": "informational creation stamp", "id": None}),
        (T + "PipelineSnapshot", T + "Pipeline::snapshot", T + "TenantManager::restore_pipeline_from_snapshot", {}),
    )
    for snap, save, restore, exc in pairs:
        fields = F.fields(snap)
        if not fields:
            ctx.anchor_lost("snapshot-fields", "%s not found" % snap)
            continue
        sb = ctx.need_body(save, rule="snapshot-fields")
        aggs = [s for bb in sorted(sb.live) for s in sb.stmts(bb) if s["k"] == "agg" and s.get("agg") == "adt:" + snap]
        if len(aggs) != 1:
            ctx.anchor_lost("snapshot-fields", "%s: expected one %s literal" % (save, snap))
            continue
        sl = Slicer(sb)
        read_back = {r["field"] for r in F.fieldacc if r["adt"] == snap and root_fn(r["f"]) == restore and r["k"] in ("r", "rt", "m")}
        for fname, op in zip(aggs[0]["fields"], aggs[0]["o"]):
            key = "%s.%s" % (snap.rsplit("::", 1)[1], fname)
            o = sl.origins([op])
            from_self = any(n == "self" for _, n in o.params)
            if exc.get(fname):
                ctx.ok("snapshot-fields", key, "exception: " + exc[fname], nontrivial=False)
                continue
            if not from_self:
                ctx.violation("snapshot-fields", key + ":save", "%s fills %s with a value that does not come from the live object" % (save.rsplit("::", 2)[-2] + "::snapshot", key), site=aggs[0]["sp"])
            elif fname not in read_back:
                ctx.violation("snapshot-fields", key + ":restore", "%s never reads %s: the persisted value is ignored on recovery" % (restore.rsplit("::", 1)[1], key))
            else:
                ctx.ok("snapshot-fields", key)
    # status flows into the restored pipeline
    rb = ctx.need_body(T + "TenantManager::restore_pipeline_from_snapshot", rule="snapshot-fields")
    pa = [s for bb in sorted(rb.live) for s in rb.stmts(bb) if s["k"] == "agg" and s.get("agg") == "adt:" + T + "Pipeline"]
    if not pa:
        ctx.anchor_lost("snapshot-fields", "restore_pipeline_from_snapshot builds no Pipeline literal")
    else:
        ops = dict(zip(pa[0]["fields"], pa[0]["o"]))
        for f in ("id", "name", "source", "status"):
            o = Slicer(rb).origins([ops[f]])
            if (T + "PipelineSnapshot", f) in o.fields:
                ctx.ok("snapshot-fields", "Pipeline.%s<-snapshot" % f)
            else:
                ctx.violation("snapshot-fields", "Pipeline.%s<-snapshot" % f, "the restored pipeline's %s does not come from the snapshot (%s)" % (f, rb.desc(ops[f])[:60]), site=pa[0]["sp"])


def run_order(ctx):
    for fn, first, second, what in (
        (T + "TenantManager::persist_tenant_to_store", "::put", T + "TenantManager::update_tenant_index_add", "snapshot put before index add"),
        (T + "TenantManager::delete_tenant_state", "::delete", T + "TenantManager::update_tenant_index_remove", "snapshot delete before index removal"),
    ):
        b = ctx.need_body(fn, rule="write-order")
        a = b.call_blocks(lambda t: t["callee"].endswith("StateStore" + first))
        c = b.call_blocks({second})
        name = fn.rsplit("::", 1)[1]
        if not a or not c:
            ctx.violation("write-order", name, "%s: store write (%d) or index update (%d) missing" % (name, len(a), len(c)))
        elif all(b.blocks_dominate(a, x) for x in c):
            ctx.ok("write-order", name, what)
        else:
            ctx.violation("write-order", name, "%s updates the tenant index before the snapshot write: after a crash in between the index names a tenant that cannot be recovered (or recovery resurrects a deleted one)" % name, site=b.term(c[0])["sp"])


def absence_to_error(ctx, fn):
    """does `fn` (a workspace helper, with its closures) turn a missing store key into an Err? — an Option::ok_or* on a value
    obtained from StateStore::get, or a StoreError::NotFound it constructs itself"""
    F = ctx.facts()
    why = None
    for p in F.bodies_of(fn):
        b = ctx.body(p)
        if b is None:
            continue
        for bb, t in b.calls():
            if t["callee"].endswith(("Option::<T>::ok_or", "Option::<T>::ok_or_else")):
                o = Slicer(b).origins([t["args"][0]])
                if o.has_call("StateStore::get"):
                    why = "%s at %s" % (t["callee"].rsplit("::", 1)[1], t["sp"])
    for r in F.fieldacc:
        if r["k"] == "init" and r["adt"].endswith("persistence::StoreError::NotFound") and root_fn(r["f"]) == fn:
            why = why or "constructs StoreError::NotFound at %s" % r["sp"]
    return why


def run_recovery(ctx):
    """(d) the write order of (c) allows a crash to leave an index entry without a snapshot (remove_tenant deletes the
    snapshot first): recover() must skip such an entry, not abort — otherwise every tenant listed after it is lost"""
    F = ctx.facts()
    fn = T + "TenantManager::recover"
    b = ctx.need_body(fn, rule="recovery")
    inloop = [(bb, t) for bb, t in b.calls() if b.in_loop(bb)]
    gets = [(bb, t) for bb, t in inloop if t["callee"].endswith("StateStore::get")]
    helpers = [(bb, t) for bb, t in inloop if (t["inst"] or t["callee"]).startswith(T) and not t["callee"].endswith("StateStore::get")]
    n = 0
    for bb, t in helpers:
        callee = t["inst"] or t["callee"]
        why = absence_to_error(ctx, callee)
        reaches_store = any(c["callee"].endswith("StateStore::get") for c in F.calls_from(callee, nested=True))
        if reaches_store:
            n += 1
        if not why:
            continue
        sinks = forward_uses(b, t["dest"]["l"])
        if any(s[0] == "return" for s in sinks):
            ctx.violation("recovery", "dangling-index-entry", "recover() returns the error of %s, which reports a missing `tenant:<id>` key as an error (%s): an index entry without a snapshot — the state a crash inside remove_tenant leaves, since the snapshot is deleted before the index is rewritten — aborts recovery and every tenant listed after it is lost" % (
                callee.rsplit("::", 1)[1], why), site=t["sp"])
            return
    # direct gets: the None case must continue the loop
    for bb, t in gets:
        n += 1
        sinks = forward_uses(b, t["dest"]["l"])
        # Option::ok_or* on the fetched value inside recover itself, flowing to the return
        conv = [s for s in sinks if s[0] == "call" and s[1].endswith(("Option::<T>::ok_or", "Option::<T>::ok_or_else"))]
        if conv and any(s[0] == "return" for s in sinks):
            ctx.violation("recovery", "dangling-index-entry", "recover() converts a missing `tenant:<id>` snapshot into an error and returns it: a dangling index entry aborts recovery of all later tenants", site=t["sp"])
            return
    ctx.floor("recovery", "per-tenant snapshot reads inside recover()'s loop", n, 1)
    ctx.ok("recovery", "dangling-index-entry", "a missing snapshot for an indexed tenant does not reach recover()'s return")


def run(ctx):
    ctx.guard("recovery", lambda: run_recovery(ctx))
    from vpr import serdeattr
    ctx.guard("serde", lambda: serdeattr.check(ctx, "serde", [T + "TenantSnapshot"], 10))
    ctx.guard("persist-after-mutate", lambda: run_handlers(ctx))
    ctx.guard("snapshot-fields", lambda: run_fields(ctx))
    ctx.guard("write-order", lambda: run_order(ctx))
