"""C28 — tenants cannot see or affect each other's pipelines (R-KEYED with provenance on the API handlers)."""
from vpr.facts import root_fn
from vpr.prov import Slicer
from rules import C29
from vpr import hirq as H

EXPLANATION = (
    "R-KEYED on MIR of the tenant-scoped API handlers (the handlers of api_routes, each receiving the request's api key): "
    "every TenantManager call that takes a TenantId gets an id whose provenance is get_tenant_by_api_key applied to the "
    "handler's own api_key parameter; pipelines are reached only through that tenant (Tenant values derive from "
    "get_tenant / get_tenant_mut / deploy_pipeline_on_tenant with that id); whole-manager accessors (list_tenants, "
    "collect_*, tenant_count, remove_tenant, create_tenant) are called only from the admin handlers and the listed "
    "metrics / health endpoints. Type level: TenantManager.tenants and .api_key_index are private fields, so no code "
    "outside tenant.rs can index tenants by anything but these methods."
    " Key normal-form agreement: every keyed operation on TenantManager.api_key_index (insert, duplicate test, lookup, removal) uses the key in the same form (the same string normalisers, or none)."
)
DECIDED = ["the tenant every pipeline operation acts on is the one owning the presented key", "cross-tenant accessors are unreachable from tenant-scoped handlers", "the tenant maps are private to tenant.rs", "api keys are stored, tested and looked up under one normal form"]
NOT_DECIDED = ["pipeline ids are unique per tenant map (guaranteed by the per-tenant HashMap)", "output channel isolation inside the engine"]

TM = "varpulis_runtime::tenant::TenantManager"
LOOKUP = TM + "::get_tenant_by_api_key"
WHOLE = {TM + "::list_tenants", TM + "::collect_connector_health", TM + "::collect_pipeline_metrics", TM + "::tenant_count", TM + "::remove_tenant",
         TM + "::create_tenant", TM + "::recover"}
ADMIN_OK = ("handle_create_tenant", "handle_list_tenants", "handle_get_tenant", "handle_delete_tenant")


def tenant_handlers(ctx):
    F = ctx.facts()
    h = ctx.need_hir("varpulis_cli::api::api_routes", rule="tenant-key")
    out = []
    for s in H.lets(h["body"]):
        if s["pat"]["k"] != "bind" or s["init"] is None:
            continue
        ch = C29.chain(s["init"])
        if any(m == "and_then" for m, _, _ in ch):
            method, path, filters, handler, e1, e2 = C29.describe(ch)
            if handler:
                out.append((handler, "%s %s" % (method, path)))
    return out


def run(ctx):
    F = ctx.facts()
    hs = tenant_handlers(ctx)
    ctx.floor("tenant-key", "tenant-scoped handlers (api_routes)", len(hs), 12)
    for handler, ep in hs:
        body_path = handler + "::{closure#0}"
        b = ctx.body(body_path)
        name = handler.rsplit("::", 1)[1]
        if b is None:
            ctx.anchor_lost("tenant-key", "body of %s not found" % handler)
            continue
        lookups = [(bb, t) for bb, t in b.calls() if (t["inst"] or t["callee"]) == LOOKUP]
        if not lookups:
            ctx.violation("tenant-key", name + ":lookup", "%s (%s) never resolves the presented api key with get_tenant_by_api_key" % (name, ep), site=b.js["span"])
            continue
        # the lookup's key argument is the handler's api_key parameter
        ok_param = False
        for bb, t in lookups:
            o = Slicer(b).origins([t["args"][1]])
            if any("api_key" in u for u in o.upvars) or any(n == "api_key" for _, n in o.params) or "api_key" in b.desc(t["args"][1]):
                ok_param = True
        if ok_param:
            ctx.ok("tenant-key", name + ":lookup", site=lookups[0][1]["sp"])
        else:
            ctx.violation("tenant-key", name + ":lookup", "%s looks a tenant up with something else than the request's api key (%s)" % (name, b.desc(lookups[0][1]["args"][1])[:50]), site=lookups[0][1]["sp"])
        # every TenantId argument derives from the lookup
        k = 0
        for p in F.bodies_of(body_path):
            pb = ctx.body(p)
            for bb, t in pb.calls():
                tgt = t["inst"] or t["callee"]
                if tgt in WHOLE:
                    ctx.violation("tenant-key", "%s:whole:%s" % (name, tgt.rsplit("::", 1)[1]), "tenant-scoped handler %s calls the cross-tenant accessor %s" % (name, tgt.rsplit("::", 1)[1]), site=t["sp"])
                    continue
                if not tgt.startswith(TM + "::") or tgt == LOOKUP:
                    continue
                for i, ty in enumerate(t["atys"]):
                    if "TenantId" in ty:
                        k += 1
                        o = Slicer(pb).origins([t["args"][i]])
                        key = "%s:%s#%d" % (name, tgt.rsplit("::", 1)[1], k)
                        if o.has_call(LOOKUP) or any("tenant_id" in u for u in o.upvars):
                            ctx.ok("tenant-key", key, "TenantId <- get_tenant_by_api_key(api_key)", site=t["sp"])
                        else:
                            ctx.violation("tenant-key", key, "%s passes a TenantId to %s that does not come from get_tenant_by_api_key of the request's key (origins %s): another tenant's state can be addressed" % (name, tgt.rsplit("::", 1)[1], o.summary()), site=t["sp"])
        if len(ctx.samples) < 8:
            ctx.sample({"handler": name, "endpoint": ep, "tenant_id_uses": k})
    # whole-manager accessors: callers
    for w in sorted(WHOLE):
        for c in F.calls_to(w):
            caller = root_fn(c["f"])
            cn = caller.rsplit("::", 1)[1]
            if caller.startswith("varpulis_cli::api::handle_") and cn not in ADMIN_OK and cn not in ("handle_health", "handle_ready", "handle_prometheus", "handle_metrics_all"):
                if (caller, w) not in [(h, None) for h, _ in hs]:
                    pass
            if caller.startswith("varpulis_cli::api::") and caller in [h for h, _ in hs]:
                ctx.violation("tenant-key", "whole:%s:%s" % (cn, w.rsplit("::", 1)[1]), "tenant-scoped handler %s reaches %s" % (cn, w), site=c["sp"])
    # privacy of the maps
    for f in F.fields(TM) or []:
        if f["n"] in ("tenants", "api_key_index"):
            if f["pub"]:
                ctx.violation("privacy", f["n"], "TenantManager.%s is public: handlers could index tenants directly" % f["n"])
            else:
                ctx.ok("privacy", f["n"])
    ctx.guard("key-form", lambda: run_keyform(ctx))


KEYED_OPS = ("get", "get_mut", "insert", "remove", "contains_key", "entry", "remove_entry", "get_key_value")
TRANSPARENT_NAMES = ("clone", "to_string", "to_owned", "as_str", "as_ref", "borrow", "deref", "into", "from", "as_deref")


STD_NORMALISERS = ("to_lowercase", "to_ascii_lowercase", "to_uppercase", "to_ascii_uppercase", "trim", "trim_start", "trim_end", "trim_matches",
                   "replace", "make_ascii_lowercase", "make_ascii_uppercase", "strip_prefix", "strip_suffix")


def is_normaliser(F, callee):
    """a string -> string function applied to the key: the std case / trim family, or a workspace fn whose only inputs and
    output are string types (data sources such as StateStore::get or snapshot readers are not normalisers)"""
    name = callee.rsplit("::", 1)[-1]
    if name in STD_NORMALISERS and ("str" in callee or "String" in callee):
        return True
    it = F.fn_item(callee)
    if it is None or not callee.startswith("varpulis_"):
        return False
    strish = lambda t: t.replace("&", "").replace("mut ", "").strip() in ("str", "alloc::string::String") or "Cow<" in t and "str" in t
    return bool(it["inputs"]) and all(strish(t) for t in it["inputs"]) and strish(it["output"])


def run_keyform(ctx):
    """Key normal-form agreement on TenantManager.api_key_index: the form under which a key is STORED (the key argument of
    `insert`) and the form under which it is LOOKED UP / TESTED / REMOVED must be produced by the same functions; if the
    duplicate test uses another form than the insert, two distinct keys can collide on one entry and one tenant's key then
    resolves to another tenant."""
    F = ctx.facts()
    users = sorted({r["f"] for r in F.fieldacc if r["adt"] == TM and r["field"] == "api_key_index" and r["k"] in ("r", "m", "w", "rt", "mt", "wt")})
    ctx.floor("key-form", "functions touching TenantManager.api_key_index", len(users), 3)
    sites = []
    for p in users:
        b = ctx.body(p)
        if b is None:
            continue
        for bb, t in b.calls():
            if not t["args"] or len(t["args"]) < 2:
                continue
            d0 = b.desc(t["args"][0])
            if not d0.endswith("api_key_index"):
                continue
            m = t["callee"].rsplit("::", 1)[1]
            if m not in KEYED_OPS:
                continue
            o = Slicer(b).origins([t["args"][1]])
            norm = sorted({(i or c).split("::<")[0] for c, i, _ in o.calls if is_normaliser(F, i or c)})
            sites.append((root_fn(p).rsplit("::", 1)[1], m, tuple(norm), t["sp"]))
    ctx.floor("key-form", "keyed operations on api_key_index", len(sites), 3)
    stored = {s[2] for s in sites if s[1] in ("insert", "entry")}
    if len(stored) > 1:
        for fn, m, norm, sp in sites:
            if m in ("insert", "entry"):
                ctx.violation("key-form", "%s:%s" % (fn, m), "api keys are stored under different normal forms (%s)" % sorted(stored), site=sp)
        return
    form = next(iter(stored)) if stored else ()
    counts = {}
    for fn, m, norm, sp in sites:
        counts[(fn, m)] = counts.get((fn, m), 0) + 1
        key = "%s:%s#%d" % (fn, m, counts[(fn, m)])
        if norm == form:
            ctx.ok("key-form", key, "key form %s" % (list(form) or "raw"), site=sp)
        else:
            ctx.violation("key-form", key, "%s tests / looks up api_key_index with the key form %s while keys are stored under %s: a key that differs from an existing one only by what the normaliser removes passes the duplicate test and then overwrites (or resolves to) the other tenant's entry" % (
                fn, list(norm) or "raw", list(form) or "raw"), site=sp)
    ctx.sample({"api_key_index_ops": [{"fn": s[0], "op": s[1], "key_form": list(s[2]) or "raw"} for s in sites]})
