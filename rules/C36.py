"""C36 — a restarted coordinator recovers exactly its applied Raft state (R-KEYS durable key agreement, R-ORDER, R-LOSSY; cfg persistent)."""
import re
from vpr.facts import root_fn
from vpr.prov import forward_uses

EXPLANATION = (
    "cfg persistent (RocksDB store compiled). R-KEYS over the constants naming persistent keys / column families in "
    "raft/persistent_store.rs: for every key, the functions that write it (put_cf / save_meta with that constant) and read "
    "it (get_cf) are collected from MIR constant operands; the recovery closure is the call-graph closure of RocksStore::open "
    "and ::open_with_shared_state. (a) every key written at run time must be read by some function, and — because "
    "purge_logs_upto deletes log entries that replay would need — recovery must reach a read of the snapshot data when it "
    "restores an applied position; both open paths must rebuild the state machine (reach replay_log or a snapshot read); "
    "(b) R-ORDER in install_snapshot: the snapshot bytes must be durable before the applied position that refers to them "
    "(put of KEY_SNAPSHOT dominates the save of KEY_LAST_APPLIED); (c) R-LOSSY: the Result of every save_meta / put_cf in "
    "apply_to_state_machine and install_snapshot is propagated."
    " Write-before-Ok: in every RaftStorage method of RocksStore that writes to the database no successful return is reachable without passing a write (no partial-comparison fast path)."
)
DECIDED = ["which durable keys recovery reads", "whether recovery can rebuild state after log compaction", "write order of snapshot data vs applied position", "storage errors are not dropped", "durable writers acknowledge only after writing"]
NOT_DECIDED = ["RocksDB atomicity of individual writes", "openraft's use of the store"]

PS = "varpulis_cluster::raft::persistent_store::"
STORE_RX = r"raft::persistent_store::RocksStore"
WRITE_CALLS = ("::put_cf", "::save_meta", "::put", "WriteBatch::put_cf", "WriteBatch::put")
READ_CALLS = ("::get_cf", "::get", "::get_pinned_cf")


def const_item(b, a, depth=0):
    """constant item referenced by an operand, chasing single-definition temporaries (use / cast / ref / deref)"""
    k = a.get("k")
    if k and k.get("item"):
        return k["item"]
    pl = a.get("c") or a.get("m")
    if pl is None or depth > 4:
        return None
    d = b.single_def(pl["l"])
    if d and d[0] == "stmt" and d[3]["o"]:
        return const_item(b, d[3]["o"][0], depth + 1)
    return None


def key_uses(ctx, F):
    """{const item: {'w': set(fn), 'r': set(fn)}} from constant operands of read / write calls"""
    uses = {}
    for p in F.mir_paths():
        if "raft::persistent_store" not in p:
            continue
        b = ctx.body(p, "persistent")
        for bb, t in b.calls():
            kind = "w" if t["callee"].endswith(WRITE_CALLS) else "r" if t["callee"].endswith(READ_CALLS) else None
            if kind is None:
                continue
            for a in t["args"]:
                item = const_item(b, a)
                if item and item.startswith(PS) and item.rsplit("::", 1)[1].startswith("KEY_"):
                    uses.setdefault(item.rsplit("::", 1)[1], {"w": set(), "r": set()})[kind].add(root_fn(p))
    return uses


DURABLE_WRITERS = ("save_vote", "append_to_log", "delete_conflict_logs_since", "purge_logs_upto", "apply_to_state_machine", "install_snapshot")


def run_unconditional(ctx, cfg="persistent"):
    """a durable writer acknowledges (returns Ok) only after it has written: in every RaftStorage method of RocksStore that writes
    to the database, no successful return is reachable without passing one of its writes (save_meta / db.put / db.write /
    db.delete). A `skip the redundant write` fast path that compares only part of the value drops an acknowledged change (the
    `committed` flag of a vote) that a restart then reads back stale."""
    F = ctx.facts(cfg)
    base = "<varpulis_cluster::raft::persistent_store::RocksStore as openraft::storage::RaftStorage<varpulis_cluster::raft::TypeConfig>>::"
    n = 0
    for m in DURABLE_WRITERS:
        paths = F.find_fns("^" + re.escape(base + m) + r"::\{closure#0\}$")
        if not paths:
            ctx.anchor_lost("durable", "RocksStore::%s not found (cfg %s)" % (m, cfg))
            continue
        b = ctx.body(paths[0], cfg)
        writes = [bb for bb, t in b.calls() if (t["inst"] or t["callee"]).endswith(("RocksStore::save_meta", "::put", "::put_cf", "::write", "::delete", "::delete_cf", "::write_opt"))
                  and ("rocksdb" in (t["inst"] or t["callee"]) or "RocksStore" in (t["inst"] or t["callee"]))]
        if not writes:
            ctx.anchor_lost("durable", "RocksStore::%s performs no database write (writers expected: save_meta / put / write / delete)" % m)
            continue
        n += 1
        # error exits: `?` residual conversions and explicit Err values
        err_blocks = [bb for bb, t in b.calls() if t["callee"].endswith("::from_residual")]
        for bb in sorted(b.live):
            for s_ in b.stmts(bb):
                if s_["k"] == "agg" and s_.get("agg", "").endswith("Result::Err"):
                    err_blocks.append(bb)
        free = b.reachable(0, avoid_blocks=writes + err_blocks)
        # an empty input (append with no entries, nothing to delete) legitimately writes nothing: loops over the input whose
        # body holds the write are entered zero times; only count returns reachable without entering such a loop
        bad = [r for r in b.return_blocks() if r in free]
        loop_writes = all(b.in_loop(w) for w in writes)
        key = "RocksStore::%s" % m
        if bad and not loop_writes:
            ctx.violation("durable", key + ":write-before-ok", "RocksStore::%s can return Ok without having written: a path from entry to a successful return avoids every database write (an early `return Ok(())` / skipped write) — what was acknowledged is not what a restart reads back" % m, site=b.term(bad[0]).get("sp") or b.js["span"])
        else:
            ctx.ok("durable", key + ":write-before-ok", "every successful return follows a database write" + (" (writes are per input entry)" if loop_writes else ""))
    ctx.floor("durable", "durable writer methods of RocksStore examined", n, 4)


def run(ctx):
    ctx.guard("durable", lambda: run_unconditional(ctx))
    F = ctx.facts("persistent")
    cg = ctx.cg("persistent")
    opens = [PS + "RocksStore::open", PS + "RocksStore::open_with_shared_state"]
    for o in opens:
        if F.mir(o) is None:
            ctx.anchor_lost("keys", "%s not found" % o)
            return
    uses = key_uses(ctx, F)
    ctx.floor("keys", "durable keys with read/write sites", len(uses), 5)
    rec = {o: cg.reach(o, within=lambda f: "persistent_store" in f) for o in opens}
    rec_all = set().union(*rec.values())
    for k, u in sorted(uses.items()):
        key = "key:" + k
        short = lambda s: sorted(x.rsplit("::", 1)[1].split(">")[-1] for x in s)
        if u["w"] and not u["r"]:
            ctx.violation("keys", key, "%s is written (%s) but never read back by any function of the store" % (k, short(u["w"])))
        else:
            ctx.ok("keys", key, "written by %s, read by %s" % (short(u["w"]), short(u["r"])))
        ctx.sample({"key": k, "writers": short(u["w"]), "readers": short(u["r"]), "read_on_recovery": bool(u["r"] & rec_all)})
    # recovery after compaction
    purges = [f for f in F.find_fns(STORE_RX + r".*::purge_logs_upto") if "{closure" not in f]
    snap_read_on_recovery = bool(uses.get("KEY_SNAPSHOT", {"r": set()})["r"] & rec_all)
    applied_read = bool(uses.get("KEY_LAST_APPLIED", {"r": set()})["r"] & rec_all)
    if purges and applied_read and not snap_read_on_recovery:
        ctx.violation("keys", "recovery:snapshot-after-purge", "recovery (RocksStore::open*) restores last_applied and replays the log, but never reads the snapshot column family; purge_logs_upto deletes applied entries after a snapshot, so after compaction or install_snapshot the restarted state machine misses every command below the purge point while claiming the recorded applied position")
    else:
        ctx.ok("keys", "recovery:snapshot-after-purge")
    for o in opens:
        name = o.rsplit("::", 1)[1]
        rebuilds = (PS + "RocksStore::replay_log") in rec[o] or bool(uses.get("KEY_SNAPSHOT", {"r": set()})["r"] & rec[o])
        if rebuilds:
            ctx.ok("keys", "recovery:rebuilds-state:" + name)
        else:
            ctx.violation("keys", "recovery:rebuilds-state:" + name, "RocksStore::%s restores the applied position but never rebuilds the state machine (no log replay, no snapshot read): the restarted node reports an applied index with an empty state" % name)
    # (b) order in install_snapshot
    ins = F.find_fns(STORE_RX + r".*::install_snapshot::\{closure#0\}$")
    if not ins:
        ctx.anchor_lost("order", "install_snapshot body not found")
    else:
        b = ctx.body(ins[0], "persistent")

        def blocks_with_key(name, calls):
            out = []
            for bb, t in b.calls():
                if not t["callee"].endswith(calls):
                    continue
                for a in t["args"]:
                    item = const_item(b, a)
                    if item and item.endswith("::" + name):
                        out.append(bb)
            return out
        snap = blocks_with_key("KEY_SNAPSHOT", WRITE_CALLS)
        applied = blocks_with_key("KEY_LAST_APPLIED", WRITE_CALLS)
        if not snap or not applied:
            ctx.anchor_lost("order", "install_snapshot: snapshot put (%d) or applied-position save (%d) not found" % (len(snap), len(applied)))
        elif all(b.blocks_dominate(snap, a) for a in applied):
            ctx.ok("order", "install_snapshot:data-before-position")
        else:
            ctx.violation("order", "install_snapshot:data-before-position", "install_snapshot persists KEY_LAST_APPLIED before the snapshot bytes: a crash in between leaves an applied position with neither log entries nor snapshot to rebuild it from", site=b.term(applied[0])["sp"])
        # (c) results propagated
        for fnrx, label in ((r".*::install_snapshot::\{closure#0\}$", "install_snapshot"), (r".*::apply_to_state_machine::\{closure#0\}$", "apply_to_state_machine")):
            fs = F.find_fns(STORE_RX + fnrx)
            if not fs:
                ctx.anchor_lost("lossy", "%s body not found" % label)
                continue
            bb_ = ctx.body(fs[0], "persistent")
            n = 0
            for cb, t in bb_.calls():
                if not t["callee"].endswith(("::save_meta", "::put_cf")):
                    continue
                n += 1
                sinks = forward_uses(bb_, t["dest"]["l"])
                used = any(s[0] == "call" and (s[1].endswith("Try::branch") or s[1].endswith("::map_err")) for s in sinks) or any(s[0] == "return" for s in sinks)
                key = "%s:write#%d" % (label, n)
                if used:
                    ctx.ok("lossy", key, site=t["sp"])
                else:
                    ctx.violation("lossy", key, "%s ignores the Result of %s: a failed durable write is acknowledged to openraft as applied" % (label, t["callee"].rsplit("::", 1)[1]), site=t["sp"])
            ctx.floor("lossy", "durable writes in %s" % label, n, 2)
