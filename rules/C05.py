"""C05 — pattern state stays within its bounds and never panics (R-GUARD on run admission, sibling agreement, R-ARITH)."""
from vpr import hirq as H
from vpr.arith import sites as arith_sites
from vpr.guards import comparison_guards
from vpr.facts import root_fn

EXPLANATION = (
    "On MIR of sase.rs: (a) who-may-grow: Vec::push onto SaseEngine.runs / a partition's run vector happens only in the two "
    "handle_backpressure* functions (plus checkpoint restore); each push there is on the `len < max_runs` branch or preceded "
    "on the same path by a swap_remove on the same vector, the four `else { push }` branches under an empty min_by_key "
    "being the only listed exceptions (reachable only with max_runs == 0, outside the quantifier); (b) R-ARMS: the two "
    "backpressure functions agree arm by arm on BackpressureStrategy (admit / evict+admit / reject); (c) the Kleene caps of "
    "C03; (d) R-ARITH: no panicking i64/u64 arithmetic on event-derived values in the functions reachable from the SASE "
    "entry points (counters incremented once per event are listed, not flagged)."
    " The empty-vector exception holds only for min_by_key over the whole vector: a filter / skip / take before it makes the no-eviction fallback reachable with a full vector and is reported."
)
DECIDED = ["runs per partition never exceed max_runs (for max_runs >= 1)", "both backpressure implementations agree per strategy", "Kleene caps (shared with C03)", "the no-eviction fallback of an evicting strategy is reachable only with an empty run vector"]
NOT_DECIDED = ["panics from indexing nfa.states[..] (depends on NFA construction)", "max_runs == 0"]

S = "varpulis_runtime::sase::"
BP = (S + "SaseEngine::handle_backpressure", S + "SaseEngine::handle_backpressure_partitioned")
# reasoned suppressions: push in the `else` of `if let Some(..) = runs.iter().enumerate().min_by_key(..)` — the vector is
# empty there while len >= max_runs, i.e. max_runs == 0 (outside the property's quantifier 1..8)
EMPTY_ELSE_OK = 4


def run_admission(ctx):
    F = ctx.facts()
    # who pushes onto run vectors
    pushers = set()
    for p in F.mir_paths():
        if not p.startswith(S):
            continue
        b = ctx.body(p)
        for bb, t in b.calls():
            if t["callee"].endswith("Vec::<T, A>::push") and t["atys"] and "sase::Run," in t["atys"][0].replace("Run>", "Run,"):
                pushers.add(root_fn(p))
    allowed = set(BP) | {S + "SaseEngine::restore", S + "SaseEngine::from_checkpoint"}
    for p in sorted(pushers):
        if p in allowed or "checkpoint" in p or "restore" in p:
            ctx.ok("who-grows", p)
        else:
            ctx.violation("who-grows", p, "%s pushes a Run onto a run vector outside the backpressure functions: the max_runs bound is bypassed" % p)
    ctx.floor("who-grows", "functions pushing runs", len(pushers), 2)
    n_exc = 0
    for fn in BP:
        b = ctx.need_body(fn, rule="admission")
        pushes = [(bb, t) for bb, t in b.calls() if t["callee"].endswith("Vec::<T, A>::push") and "Run" in t["atys"][0]]
        removes = [bb for bb, t in b.calls() if t["callee"].endswith("::swap_remove") or t["callee"].endswith("Vec::<T, A>::remove")]
        name = fn.rsplit("::", 1)[1]
        ctx.floor("admission", "%s: run pushes" % name, len(pushes), 5)
        for i, (bb, t) in enumerate(pushes):
            key = "%s:push#%d" % (name, i + 1)
            nfs = [nf for nf, g in comparison_guards(b, bb)]
            under_cap = any(nf[0] == ">" and "max_runs" in nf[1] and "len(" in nf[2] for nf in nfs)
            after_remove = removes and b.blocks_dominate(removes, bb)
            if under_cap:
                ctx.ok("admission", key, "under len < max_runs", site=t["sp"])
            elif after_remove:
                ctx.ok("admission", key, "after swap_remove on the same path", site=t["sp"])
            else:
                # the listed exception shape: the None side of an `if let Some(..) = ...min_by_key(..)`
                gs = b.guards_of(bb)
                none_of_min = any(g["kind"] == "discr" and "min_by_key" in g["text"] and g["taken"] in ([0], "other") for g in gs)
                narrowed = None
                if none_of_min:
                    # the exception rests on "min_by_key over the WHOLE vector is None only for an empty vector": a filter /
                    # skip / take between iter() and min_by_key makes the no-eviction fallback reachable with a full vector
                    from vpr.prov import Slicer
                    for g in gs:
                        if g["kind"] == "discr" and "min_by_key" in g["text"] and g.get("of") is not None:
                            o = Slicer(b).origins([g["of"]])
                            for cn in o.call_names():
                                if cn.rsplit("::", 1)[-1] in ("filter", "filter_map", "skip", "take", "skip_while", "take_while", "step_by"):
                                    narrowed = cn.rsplit("::", 1)[-1]
                if none_of_min and narrowed:
                    ctx.violation("admission", key, "%s admits the new run without evicting when no candidate passes `%s(..)` before min_by_key: with every active run excluded by that %s the run vector is full, nothing is removed and the run is pushed anyway — the number of partial matches grows past max_runs" % (name, narrowed, narrowed), site=t["sp"])
                elif none_of_min:
                    n_exc += 1
                    ctx.ok("admission", key, "listed exception: vector empty while len >= max_runs (max_runs == 0 only)", site=t["sp"], nontrivial=False)
                else:
                    ctx.violation("admission", key, "%s admits a run without `len < max_runs` and without evicting one first: the per-partition bound can be exceeded" % name, site=t["sp"])
    if n_exc > EMPTY_ELSE_OK:
        ctx.violation("admission", "exceptions", "%d pushes rely on the empty-vector exception, %d are listed" % (n_exc, EMPTY_ELSE_OK))


def strategy_table(ctx, fn):
    h = ctx.need_hir(fn, rule="strategy-arms")
    ms = H.matches_on(h["body"], lambda t: t.endswith("sase::BackpressureStrategy"))
    if len(ms) != 1:
        ctx.anchor_lost("strategy-arms", "%s: expected one match on BackpressureStrategy" % fn)
        return None
    tab = {}
    for head, pat, arm in H.arm_rows(ms[0]):
        if head == "*":
            tab["*"] = "?"
            continue
        v = head.rsplit("::", 1)[1]
        ms_ = [x["method"] for x in H.walk(arm["body"]) if x.get("k") == "mcall"]
        evicts = "swap_remove" in ms_ or "remove" in ms_
        pushes = "push" in ms_
        crit = "started_at" if any(x.get("k") == "field" and x["name"] == "started_at" for c in H.walk(arm["body"]) if c.get("k") == "mcall" and c["method"] == "min_by_key" for x in H.walk(c)) else \
               "stack.len" if any(c.get("k") == "mcall" and c["method"] == "min_by_key" for c in H.walk(arm["body"])) else "-"
        tab[v] = "%s%s by %s" % ("evict+" if evicts else "", "admit" if pushes else "reject", crit)
    return tab


def run_arms(ctx):
    t1 = strategy_table(ctx, BP[0])
    t2 = strategy_table(ctx, BP[1])
    if t1 is None or t2 is None:
        return
    for v in sorted(set(t1) | set(t2)):
        if t1.get(v) == t2.get(v) and v != "*":
            ctx.ok("strategy-arms", v, t1[v])
        else:
            ctx.violation("strategy-arms", v, "BackpressureStrategy::%s: handle_backpressure does `%s`, handle_backpressure_partitioned does `%s`" % (v, t1.get(v), t2.get(v)))
    want = {"Drop": "reject", "Error": "reject", "EvictOldest": "evict+admit by started_at", "EvictLeastProgress": "evict+admit by stack.len"}
    for v, w in want.items():
        if not (t1.get(v, "").startswith(w)):
            ctx.violation("strategy-arms", "contract:" + v, "strategy %s does `%s`, documented behaviour is `%s`" % (v, t1.get(v), w))
        else:
            ctx.ok("strategy-arms", "contract:" + v)
    ctx.sample({"strategy_table": t1})


# u64 statistics counters incremented once per event / run: cannot overflow in any feasible execution (2^64 events)
COUNTER_FIELDS = ("total_runs_created", "total_runs_completed", "total_runs_dropped", "total_runs_evicted", "late_events_accepted",
                  "late_events_dropped", "events_processed", "count", "sum")


def run_arith(ctx):
    F = ctx.facts()
    cg = ctx.cg()
    roots = [S + "SaseEngine::process_shared", S + "SaseEngine::process_shared_with_result", S + "SaseEngine::process_instrumented"]
    reach = cg.reach(roots, within=lambda f: f.startswith(S))
    fns = sorted(f for f in reach if f.startswith(S) and F.mir(f) is not None)
    ctx.floor("arith", "sase functions reachable from the entry points", len(fns), 25)
    n = 0
    for f in fns:
        for p in F.bodies_of(f):
            b = ctx.body(p)
            for s in arith_sites(b, types={"i64", "u64", "u32", "i32"}):
                n += 1
                key = "%s:%s:%s:(%s)" % (f.rsplit("::", 1)[1], s["kind"], s["op"], ",".join(s["operands"]))
                txt = " ".join(s["operands"]) + " " + " ".join(b.desc(a) for a in (s["term"].get("ops") or s["term"].get("args") or []))
                if any(c in txt for c in COUNTER_FIELDS) and s["op"] in ("Overflow(Add)", "Add", "AddAssign") :
                    ctx.ok("arith", key, "statistics counter incremented once per event", site=s["sp"], nontrivial=False)
                elif s["op"] in ("Overflow(Add)", "AddAssign", "Add") and any(o == "const" for o in s["operands"]) and "next_var" in txt:
                    ctx.ok("arith", key, "next_var += 1, bounded by max_kleene_events (C03)", site=s["sp"], nontrivial=False)
                else:
                    ctx.violation("arith", key, "panicking integer %s in the event path of the pattern matcher" % s["op"], site=s["sp"])
    ctx.note("integer arithmetic sites examined in the SASE event path: %d" % n)


def run(ctx):
    ctx.guard("admission", lambda: run_admission(ctx))
    ctx.guard("strategy-arms", lambda: run_arms(ctx))
    ctx.guard("arith", lambda: run_arith(ctx))
    from rules import C03
    ctx.guard("event-cap", lambda: C03.run_event_cap(ctx))
    ctx.guard("result-cap", lambda: C03.run_result_cap(ctx))
