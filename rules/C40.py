"""C40 — value equality is an equivalence consistent with hashing (R-EQHASH)."""
from vpr import hirq as H

EXPLANATION = (
    "R-EQHASH on type-checked HIR of `impl PartialEq for Value` and `impl Hash for Value`: (1) eq has exactly one diagonal arm per "
    "variant plus `_ => false`, each comparing the two payload bindings with `==` or the float helper (reflexive / symmetric / "
    "transitive by the payload types); (2) for every variant whose payload equality ignores order (IndexMap), the hash arm must "
    "not feed the outer hasher inside the iteration over entries; (3) float equality classes (all NaNs equal, +0 = -0) must be the "
    "hash arm's normalisation classes; (4) every variant has a hash arm and the discriminant is hashed."
)
DECIDED = ["diagonal arm table of Value::eq", "order-sensitivity of the Map hash arm vs IndexMap equality", "float class agreement between eq helper and hash arm", "hash arm per variant"]
NOT_DECIDED = ["hash quality", "equality of payload types from other crates beyond their documented contracts (IndexMap: order-insensitive, Vec: ordered)"]

VALUE = "varpulis_core::value::Value"
EQ = "<varpulis_core::value::Value as core::cmp::PartialEq>::eq"
HASH = "<varpulis_core::value::Value as core::hash::Hash>::hash"


def run(ctx):
    F = ctx.facts()
    item = F.struct(VALUE)
    if not item:
        ctx.anchor_lost("eqhash", "enum Value not found")
        return
    variants = {v["n"]: v["fields"] for v in item["variants"]}
    unordered = {n for n, fs in variants.items() if any("indexmap::map::IndexMap" in f["ty"] or "HashMap" in f["ty"] or "HashSet" in f["ty"] for f in fs)}
    floats = {n for n, fs in variants.items() if any(f["ty"] == "f64" for f in fs)}
    ctx.floor("eqhash", "Value variants", len(variants), 9)
    ctx.floor("eqhash", "variants with order-insensitive payload equality", len(unordered), 1)

    # ---- eq
    h = ctx.need_hir(EQ, rule="eq")
    ms = H.matches_on(h["body"], lambda t: t.count(VALUE) == 2 and t.startswith("("))
    if len(ms) != 1:
        ctx.anchor_lost("eq", "Value::eq: expected one match on (self, other), found %d" % len(ms))
        return
    m = ms[0]
    seen = set()
    eq_float_helper = None
    for head, pat, arm in H.arm_rows(m):
        if head == "*" or head == ("*", "*"):
            body = H.strip(arm["body"])
            if not (body.get("k") == "lit" and body["v"]["v"] == "false"):
                ctx.violation("eq", "wildcard", "the wildcard arm of Value::eq must be `false`, is `%s`" % H.show(body), site=arm["sp"])
            continue
        if not isinstance(head, tuple) or len(head) != 2:
            ctx.violation("eq", "shape:%s" % (head,), "unrecognised arm pattern in Value::eq", site=arm["sp"])
            continue
        l, r = (x.rsplit("::", 1)[-1] for x in head)
        if l != r:
            ctx.violation("eq", "cross:%s,%s" % (l, r), "Value::eq has a cross-variant arm (%s, %s): symmetry/transitivity no longer follow from the payload types" % (l, r), site=arm["sp"])
            continue
        seen.add(l)
        lb = H.pat_binds(pat["sub"][0])
        rb = H.pat_binds(pat["sub"][1])
        body = H.strip(arm["body"])
        ok = False
        if not variants[l]:
            ok = body.get("k") == "lit" and body["v"]["v"] == "true"
        elif body.get("k") == "bin" and body["op"] == "Eq":
            ok = (H.local_name(body["l"]) in lb and H.local_name(body["r"]) in rb) or (H.local_name(body["l"]) in rb and H.local_name(body["r"]) in lb)
            if ok and l in floats:
                # plain f64 == : NaN != NaN breaks reflexivity
                ctx.violation("eq", "float-reflexive", "Value::Float compared with plain `==`: NaN is not equal to itself", site=arm["sp"])
                continue
        elif body.get("k") == "call" and isinstance(body["callee"], str) and len(body["args"]) == 2:
            a0, a1 = (H.local_name(x) for x in body["args"])
            ok = (a0 in lb and a1 in rb) or (a0 in rb and a1 in lb)
            if l in floats:
                eq_float_helper = body["callee"].split(":", 1)[1]
        if ok:
            ctx.ok("eq", "diag:" + l, site=arm["sp"])
        else:
            ctx.violation("eq", "diag:" + l, "arm (%s, %s) of Value::eq is not a comparison of the two payloads: %s" % (l, l, H.show(body)), site=arm["sp"])
    for v in variants:
        if v not in seen:
            ctx.violation("eq", "missing:" + v, "Value::eq has no arm for (%s, %s): a value of that variant is not equal to itself" % (v, v), site=m["sp"])

    # ---- float helper classes
    eq_nan = eq_zero = False
    if floats:
        if not eq_float_helper:
            ctx.violation("float", "helper", "no float comparison helper found in the Float arm of Value::eq")
        else:
            fh = ctx.need_hir(eq_float_helper, rule="float")
            nan_calls = [x for x in H.walk(fh["body"]) if x.get("k") == "mcall" and x["method"] == "is_nan"]
            eq_nan = len(nan_calls) >= 2
            eq_zero = any(x.get("k") == "bin" and x["op"] == "Eq" and x["lty"] == "f64" for x in H.walk(fh["body"]))
            if not eq_nan:
                ctx.violation("float", "nan-reflexive", "%s does not make NaN equal to itself" % eq_float_helper, site=fh["span"])
            else:
                ctx.ok("float", "nan-reflexive")

    # ---- hash
    hh = ctx.need_hir(HASH, rule="hash")
    state = None
    for p in hh["params"]:
        if p["k"] == "bind" and p["name"] != "self":
            state = p["name"]
    ms = H.matches_on(hh["body"], lambda t: t.endswith(VALUE))
    if len(ms) != 1 or state is None:
        ctx.anchor_lost("hash", "Value::hash: expected one match on self and a hasher parameter")
        return
    discr = [d for d, _ in H.calls_in(hh["body"]) if d.endswith("mem::discriminant")]
    if not discr:
        ctx.violation("hash", "discriminant", "Value::hash does not hash the discriminant (different variants with equal payload bits collide, harmless) — unrecognised shape")
    hseen = set()
    for head, pat, arm in H.arm_rows(ms[0]):
        if not isinstance(head, str) or not head.startswith(VALUE + "::"):
            if head == "*":
                ctx.violation("hash", "wildcard", "wildcard arm in Value::hash", site=arm["sp"])
            continue
        v = head.rsplit("::", 1)[1]
        hseen.add(v)
        body = arm["body"]
        if v in unordered:
            bad = []
            for loop in [x for x in H.walk(body) if x.get("k") in ("for", "loop") or (x.get("k") == "mcall" and x["method"] in ("for_each", "fold", "try_for_each"))]:
                inner = loop["body"] if loop.get("k") in ("for", "loop") else loop
                for x in H.walk(inner):
                    if x.get("k") == "mcall" and x["method"].startswith("hash") and x["args"] and H.local_name(x["args"][-1]) == state:
                        bad.append(x)
                    if x.get("k") == "call" and isinstance(x["callee"], str) and x["callee"].endswith("::hash") and x["args"] and H.local_name(x["args"][-1]) == state:
                        bad.append(x)
            if bad:
                ctx.violation("hash", "order:" + v, "Value::%s equality ignores entry order (IndexMap) but its hash feeds the hasher entry by entry in iteration order: equal maps built in different orders hash differently" % v, site=bad[0]["sp"])
            else:
                ctx.ok("hash", "order:" + v, site=arm["sp"])
        if v in floats:
            has_nan = any(x.get("k") == "mcall" and x["method"] == "is_nan" for x in H.walk(body))
            has_zero = any(x.get("k") == "bin" and x["op"] == "Eq" and x["lty"] in ("f64", "&f64") and (is_zero(x["r"]) or is_zero(x["l"])) for x in H.walk(body))
            if eq_nan and not has_nan:
                ctx.violation("float", "hash-nan", "eq treats all NaNs as equal but the hash arm does not normalise NaN bit patterns", site=arm["sp"])
            elif eq_nan:
                ctx.ok("float", "hash-nan", site=arm["sp"])
            if eq_zero and not has_zero:
                ctx.violation("float", "hash-zero", "eq treats -0.0 and 0.0 as equal but the hash arm does not normalise the sign of zero", site=arm["sp"])
            elif eq_zero:
                ctx.ok("float", "hash-zero", site=arm["sp"])
        ctx.sample({"variant": v, "hash_arm": H.show(body)[:140]})
    for v in variants:
        if v not in hseen:
            ctx.violation("hash", "missing:" + v, "Value::hash has no arm for %s" % v)
        else:
            ctx.ok("hash", "arm:" + v)


def is_zero(e):
    e = H.strip(e)
    return e is not None and e.get("k") == "lit" and e["v"]["t"] == "float" and float(e["v"]["v"]) == 0.0
