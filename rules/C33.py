"""C33 — placement on available workers; failure detection (provenance of placement inputs, R-FSM on WorkerNode.status)."""
from vpr import hirq as H
from vpr.guards import comparison_guards
from vpr.prov import Slicer

EXPLANATION = (
    "On MIR of varpulis_cluster: (a) every argument list handed to PlacementStrategy::place derives from a filter closure that "
    "calls WorkerNode::is_available; every record that fixes a placement target (DeployTask, MigratePipelinePlan, "
    "MigrationTask) takes its target either from place() or under a dominating is_available() == true test of that worker "
    "(pinned / caller-chosen targets); (b) R-FSM on WorkerNode.status: every write is extracted with the variant written, "
    "the function and the dominating guards and compared with the contract: Unhealthy only in health_sweep under "
    "status == Ready and last_heartbeat.elapsed() > timeout (strictly: never earlier than the timeout), Unhealthy -> Ready "
    "only in heartbeat, Draining only in drain_worker, registration and the Raft sync being the listed exceptions; "
    "(c) is_available requires status == Ready."
)
DECIDED = ["inputs of every placement decision are availability-filtered", "explicit / pinned targets are availability-tested", "transition table of WorkerNode.status with its guards"]
NOT_DECIDED = ["the strategies' choice among available workers", "timing of sweeps relative to heartbeats (virtual clock histories)"]

C = "varpulis_cluster::"
COORD = C + "coordinator::Coordinator::"
AVAIL = C + "worker::WorkerNode::is_available"
PLACE = C + "PlacementStrategy::place"
STATUS = C + "worker::WorkerStatus::"


def closure_calls_avail(F, closures):
    for c in closures:
        for call in F.calls_from(c):
            if (call["inst"] or call["callee"]) == AVAIL:
                return True
    return False


def run_place(ctx):
    F = ctx.facts()
    sites = [c for c in F.calls if c["callee"] == PLACE]
    ctx.floor("place-input", "PlacementStrategy::place call sites", len(sites), 6)
    k = {}
    for c in sites:
        b = ctx.body(c["f"])
        t = b.term(c["bb"])
        fn = c["f"].split("::{closure")[0].rsplit("::", 1)[1]
        k[fn] = k.get(fn, 0) + 1
        key = "%s#%d" % (fn, k[fn])
        o = Slicer(b).origins([t["args"][2] if len(t["args"]) > 2 else t["args"][-1]])
        if closure_calls_avail(F, o.closures) or o.has_call(AVAIL):
            ctx.ok("place-input", key, site=t["sp"])
            ctx.sample({"place_site": t["sp"], "filter_closures": sorted(o.closures)[:2]})
        else:
            ctx.violation("place-input", key, "the worker list passed to place() is not filtered through WorkerNode::is_available (origins: %s)" % o.summary()["calls"][:6], site=t["sp"])


RECORDS = {
    C + "coordinator::DeployTask": "worker_id",
    C + "coordinator::MigratePipelinePlan": "target_worker_id",
    C + "migration::MigrationTask": "target_worker",
}


def run_targets(ctx):
    F = ctx.facts()
    n = 0
    for p in F.mir_paths():
        if not p.startswith(C + "coordinator::"):
            continue
        b = ctx.body(p)
        for bb in sorted(b.live):
            for s in b.stmts(bb):
                if s["k"] != "agg":
                    continue
                adt = s.get("agg", "")[4:]
                if adt not in RECORDS:
                    continue
                n += 1
                field = RECORDS[adt]
                op = dict(zip(s["fields"], s["o"])).get(field)
                fn = p.split("::{closure")[0].rsplit("::", 1)[1]
                key = "%s:%s" % (fn, adt.rsplit("::", 1)[1])
                o = Slicer(b).origins([op])
                from_place = o.has_call(PLACE) or any(c.endswith("::place") for c in o.call_names())
                guards = b.guards_of(bb)
                avail_guard = any(g["kind"] == "call" and g["call"]["callee"] == AVAIL and g["taken"] == "true" for g in guards)
                pinned = any("affinity" in f[1] for f in o.fields)
                from_plan = any(f[0].endswith("MigratePipelinePlan") and f[1] == "target_worker_id" for f in o.fields)
                if from_plan:
                    ctx.ok("target", key + ":from-plan", "target copied from a MigratePipelinePlan (checked where the plan is built)", site=s["sp"])
                elif from_place and not pinned:
                    ctx.ok("target", key, "target from place()", site=s["sp"])
                elif avail_guard:
                    ctx.ok("target", key, "under is_available() == true", site=s["sp"])
                elif from_place and pinned:
                    # pinned branch: the Some(wid) for the affinity must itself be under is_available
                    ok = pinned_guarded(ctx, b)
                    if ok:
                        ctx.ok("target", key, "target from place() or a pinned worker tested available", site=s["sp"])
                    else:
                        ctx.violation("target", key, "a pinned worker (worker_affinity) is used as target without an is_available() test", site=s["sp"])
                else:
                    ctx.violation("target", key, "%s fixes `%s` as placement target without place() and without a dominating WorkerNode::is_available() == true test: an unhealthy, draining or full worker is accepted" % (fn, b.desc(op)[:50]), site=s["sp"])
    ctx.floor("target", "placement decision records constructed", n, 4)


def pinned_guarded(ctx, b):
    """every `Some(wid)` whose payload derives from worker_affinity is under is_available() == true"""
    ok = True
    seen = 0
    for bb in sorted(b.live):
        for s in b.stmts(bb):
            if s["k"] == "agg" and s.get("agg", "").endswith("Option::Some") and s["o"]:
                o = Slicer(b).origins([s["o"][0]], through_calls="transparent")
                if any("affinity" in f[1] for f in o.fields) and "WorkerId" in b.local_ty(s["d"]["l"]):
                    seen += 1
                    gs = b.guards_of(bb)
                    if not any(g["kind"] == "call" and g["call"]["callee"] == AVAIL and g["taken"] == "true" for g in gs):
                        ok = False
    return ok and seen > 0


def run_fsm(ctx):
    F = ctx.facts()
    WN = C + "worker::WorkerNode"
    writers = F.field_accessors(WN, "status", kinds=("w",))
    ctx.floor("fsm", "functions writing WorkerNode.status", len(writers), 4)
    table = []
    for fn in sorted(writers):
        for body_path in F.bodies_of(fn):
            b = ctx.body(body_path)
            if b is None:
                continue
            for bb in sorted(b.live):
                for s in b.stmts(bb):
                    p = s["d"]["p"]
                    if not (p and isinstance(p[-1], dict) and p[-1].get("f") == "status" and p[-1].get("a") == WN):
                        continue
                    val = b.desc(s["o"][0]) if s.get("o") else "?"
                    variant = None
                    if s["k"] == "agg" and s.get("agg", "").startswith("adt:" + STATUS):
                        variant = s["agg"].rsplit("::", 1)[1]
                    elif val.startswith("WorkerStatus::") and val.endswith("{}"):
                        variant = val[len("WorkerStatus::"):-2]
                    nfs = [nf for nf, g in comparison_guards(b, bb)]
                    table.append((fn, variant, val, nfs, s["sp"]))
    short = lambda f: f.rsplit("::", 1)[1]
    for fn, variant, val, nfs, sp in table:
        name = short(fn)
        key = "%s:%s" % (name, variant or "dynamic")
        status_is = lambda v: any(nf[0] == "==" and "status" in nf[1] + nf[2] and v in nf[1] + nf[2] for nf in nfs)
        if variant == "Unhealthy":
            timeout = [nf for nf in nfs if "timeout" in nf[1] + nf[2] and "elapsed" in nf[1] + nf[2]]
            if name != "health_sweep":
                ctx.violation("fsm", key, "%s marks a worker Unhealthy; only the health sweep may" % fn, site=sp)
            elif not status_is("Ready"):
                ctx.violation("fsm", key, "health_sweep marks a worker Unhealthy without testing status == Ready (a draining worker would be overwritten)", site=sp)
            elif not timeout:
                ctx.violation("fsm", key, "health_sweep marks a worker Unhealthy without comparing last_heartbeat.elapsed() with the timeout", site=sp)
            elif not (timeout[0][0] == ">" and "elapsed" in timeout[0][1] and "timeout" in timeout[0][2]):
                ctx.violation("fsm", key, "health_sweep marks a worker Unhealthy under `%s %s %s`; the statement fixes `elapsed(last_heartbeat) > timeout` (never earlier than the timeout)" % (timeout[0][1], timeout[0][0], timeout[0][2]), site=sp)
            else:
                ctx.ok("fsm", key, "under status == Ready && %s > %s" % (timeout[0][1], timeout[0][2]), site=sp)
        elif variant == "Ready":
            if name == "heartbeat":
                if status_is("Unhealthy"):
                    ctx.ok("fsm", key, "Unhealthy -> Ready on heartbeat", site=sp)
                else:
                    ctx.violation("fsm", key, "heartbeat sets Ready without testing status == Unhealthy (a Draining worker would become available again)", site=sp)
            elif name in ("register_worker", "new"):
                ctx.ok("fsm", key, "registration", site=sp)
            else:
                ctx.violation("fsm", key, "%s sets a worker Ready; only registration and a heartbeat of an Unhealthy worker may" % fn, site=sp)
        elif variant == "Draining":
            if name == "drain_worker":
                ctx.ok("fsm", key, site=sp)
            else:
                ctx.violation("fsm", key, "%s sets a worker Draining; only drain_worker may" % fn, site=sp)
        elif variant is None:
            if name in ("sync_from_raft",):
                ctx.ok("fsm", key, "listed exception: status copied from the replicated state", site=sp)
            else:
                ctx.violation("fsm", key, "%s writes a computed status `%s`" % (fn, val[:60]), site=sp)
        else:
            if name in ("new", "register_worker"):
                ctx.ok("fsm", key, site=sp)
            else:
                ctx.violation("fsm", key, "%s writes status %s (not in the contract table)" % (fn, variant), site=sp)
        ctx.sample({"fn": name, "writes": variant or val[:40], "guards": ["%s %s %s" % nf for nf in nfs][:4]})
    # is_available requires Ready
    h = ctx.need_hir(AVAIL, rule="fsm")
    txt = H.show(h["body"])
    if "status == WorkerStatus::Ready" in txt or "WorkerStatus::Ready == " in txt:
        ctx.ok("fsm", "is_available", txt[:100])
    else:
        ctx.violation("fsm", "is_available", "WorkerNode::is_available no longer requires status == Ready: `%s`" % txt[:120], site=h["span"])


def run(ctx):
    ctx.guard("place-input", lambda: run_place(ctx))
    ctx.guard("target", lambda: run_targets(ctx))
    ctx.guard("fsm", lambda: run_fsm(ctx))
