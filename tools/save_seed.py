#!/usr/bin/env python3
"""save_seed.py <seed-out-dir> <seed-id> <property> <detected-by-or-'-'> <confirm-summary>
Copies a confirmed seeded change into /verif/seeded/<seed-id>/ (patch.diff, demo/, meta.json)."""
import json
import os
import shutil
import sys

src, sid, prop, detected, confirm = sys.argv[1:6]
dst = os.path.join("/verif/seeded", sid)
os.makedirs(dst, exist_ok=True)
shutil.copy(os.path.join(src, "patch.diff"), os.path.join(dst, "patch.diff"))
if os.path.isdir(os.path.join(dst, "demo")):
    shutil.rmtree(os.path.join(dst, "demo"))
shutil.copytree(os.path.join(src, "demo"), os.path.join(dst, "demo"))
agent = {}
try:
    agent = json.load(open(os.path.join(src, "meta.json")))
except Exception:
    pass
meta = {
    "seed_id": sid,
    "property": prop,
    "summary": agent.get("summary", ""),
    "needs_to_manifest": agent.get("needs", ""),
    "files_touched": agent.get("files_touched", []),
    "written_by": "independent sub-agent given only the property text and a scratch worktree",
    "confirmed_by_me": confirm,
    "how_confirmed": "tools/confirm_seed.sh in a scratch worktree of /repo HEAD: demo passes on the unchanged tree, fails with patch.diff applied, and `cargo nextest run --workspace` (the existing suite, demo removed) still passes with the patch",
    "detected_by": detected,
    "how_to_run_checks_against_it": "tools/try_seed.sh seeded/%s/patch.diff %s   (applies the patch to a scratch worktree, never to /repo)" % (sid, prop),
}
json.dump(meta, open(os.path.join(dst, "meta.json"), "w"), indent=1)
print("saved", dst)
