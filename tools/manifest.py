#!/usr/bin/env python3
"""Regenerate MANIFEST.json from rules/registry.py (claimed checks) and properties.jsonl."""
import json
import os
import sys

VERIF = os.path.dirname(os.path.dirname(os.path.abspath(__file__)))
sys.path.insert(0, VERIF)
from rules.registry import CLAIMED, NOT_APPLICABLE  # noqa: E402

ids = [json.loads(l)["id"] for l in open(os.path.join(VERIF, "properties.jsonl"))]
checks = []
for pid in ids:
    if pid not in CLAIMED:
        continue
    c = CLAIMED[pid]
    checks.append({
        "property_id": pid,
        "quick_cmd": "./check %s --tier quick" % pid,
        "thorough_cmd": "./check %s --tier thorough" % pid,
        "evidence_file": "evidence/%s.json" % pid,
        "replay_cmd_template": "./check %s --replay {path}" % pid,
        "engine": "vpx+vpr",
        "level_claimed": {
            "category": "other",
            "text": c["level"],
            "design_ref": "DESIGN.md section 5, %s" % pid,
        },
        "level_note": c.get("note", "Trusted: rustc nightly front end (HIR/typeck/MIR build), the vpx extractor, the vpr analyses and the idiom/exception tables in rules/%s.py. The rule decides necessary structural clauses of the property for every input at once; it does not decide the behaviour inside the handled arms/paths." % pid),
        "technique": c["technique"],
    })
na = []
for pid in ids:
    if pid in CLAIMED:
        continue
    na.append({"property_id": pid, "reason": NOT_APPLICABLE.get(pid, "check not yet built in this round (see DESIGN.md section 5 for the planned rule)")})
m = {
    "version": 1,
    "setup_cmd": "./setup.sh",
    "hooks": {
        "guard": "varpulis_verif",
        "enable": "none needed: static analysis reads the type-checked program (cargo +nightly check with the vpx wrapper); no instrumentation is compiled into /repo",
        "baseline_off_cmd": "cd /repo && cargo nextest run --workspace --no-fail-fast --offline",
        "source_commits": [],
        "add_only": True,
    },
    "engines": [
        {"name": "vpx", "path": "vpx/", "serves_properties": sorted(CLAIMED), "kind_free_text": "rustc_private driver (nightly) dumping items, type-checked HIR and built MIR of every workspace crate as JSON facts"},
        {"name": "vpr", "path": "vpr/", "serves_properties": sorted(CLAIMED), "kind_free_text": "Python analyses over the facts: CFG dominance / must-pass-through, provenance slices, call graph with CHA, field access index, HIR match-arm tables; per-property rules in rules/"},
    ],
    "checks": checks,
    "notes": "Static analysis only: every check re-extracts facts from /repo's current working tree (content-hash keyed cache under .cache/), applies repo-specific rules and reports a specific construct. Genuine defects found are either repaired in /repo ('fix:' commits) or listed in known_findings.json. The thorough command additionally applies every seeded defect / regression patch of the property (seeded/) to a scratch copy of the current working tree and records in the evidence whether the rule reports it (never a VIOLATION). Most claims are partial: each decides named structural clauses that are necessary conditions of the property, not the behaviour; level texts and evidence say which. See DESIGN.md section 0.",
    "not_applicable": na,
}
json.dump(m, open(os.path.join(VERIF, "MANIFEST.json"), "w"), indent=1)
print("claimed", len(checks), "not_applicable", len(na))
