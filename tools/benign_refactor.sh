#!/bin/bash
# benign_refactor.sh [patch...] — false-alarm test: apply behaviour-preserving edits (benign/*.diff: renamed locals, ...)
# to a scratch worktree and require EVERY check to stay silent (exit 0).  A patch that no longer applies is reported.
set -u
PATCHES=("$@"); [ ${#PATCHES[@]} -eq 0 ] && PATCHES=(/verif/benign/*.diff)
FAIL=0
for P in "${PATCHES[@]}"; do
  WT=/var/tmp/verif-benign-$$
  git -C /repo worktree add --detach "$WT" HEAD >/dev/null 2>&1 || { echo "worktree failed"; exit 2; }
  if ! git -C "$WT" apply "$P" 2>/dev/null; then echo "SKIP $(basename $P): does not apply to the current tree"; git -C /repo worktree remove --force "$WT"; continue; fi
  cd /verif
  for id in $(python3 -c "
import sys;sys.path.insert(0,'/verif')
from rules.registry import CLAIMED;print(' '.join(sorted(CLAIMED)))"); do
    out=$(VERIF_REPO="$WT" VERIF_TAG=benign ./check "$id" 2>&1); rc=$?
    if [ $rc -ne 0 ]; then FAIL=1; echo "ALARM $id ($(basename $P))"; echo "$out" | grep -A3 "violation \[\|anchor lost" | grep -v "^VIOLATION" | cut -c1-260 | head -8; fi
  done
  git -C /repo worktree remove --force "$WT"
  rm -rf /verif/.cache/facts/*@benign /verif/out/violations-benign
done
[ $FAIL = 0 ] && echo "all checks silent on the benign refactors"
exit $FAIL
