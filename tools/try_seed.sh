#!/bin/bash
# try_seed.sh <patch.diff> <property-id>...   — run checks against a scratch copy of /repo HEAD with the patch applied
# (never touches /repo's working tree; the scratch worktree is removed afterwards)
set -u
PATCH="$1"; shift
WT=/tmp/try/wt-$$
mkdir -p /tmp/try
git -C /repo worktree add --detach "$WT" HEAD >/dev/null 2>&1 || { echo "worktree failed"; exit 2; }
if ! git -C "$WT" apply "$PATCH"; then echo "PATCH DOES NOT APPLY"; git -C /repo worktree remove --force "$WT"; exit 2; fi
cd /verif
for id in "$@"; do
  VERIF_REPO="$WT" VERIF_TAG=try ./check "$id" 2>&1 | grep -v "^\[extract\]" | sed "s|$WT/||g" | head -${TRY_LINES:-14}
done
git -C /repo worktree remove --force "$WT"
rm -rf /verif/.cache/facts/*@try
