#!/bin/bash
# confirm_seed.sh <seed-dir> <demo-src-file> <demo-dst-rel-path> -- <cargo test args for the demo>
# Confirms a seeded change in a scratch worktree of /repo HEAD (outside /repo and /verif):
#   1. demo passes on the unchanged tree, 2. patch applies and the workspace builds, 3. demo fails with the patch,
#   4. the existing suite (without the demo) still passes with the patch.   Removes the worktree afterwards.
set -u
SEED="$1"; DEMO_SRC="$2"; DEMO_DST="$3"; shift 3; [ "$1" = "--" ] && shift
ID=$(basename "$(dirname "$SEED")")
WT=/tmp/confirm/wt-$ID
export CARGO_TARGET_DIR=/tmp/confirm/target CARGO_NET_OFFLINE=true
mkdir -p /tmp/confirm
git -C /repo worktree remove --force "$WT" 2>/dev/null
git -C /repo worktree add --detach "$WT" HEAD >/dev/null 2>&1 || { echo "RESULT $ID worktree-failed"; exit 2; }
cd "$WT"
mkdir -p "$(dirname "$DEMO_DST")"; cp "$DEMO_SRC" "$DEMO_DST"
echo "== demo on unchanged tree"; cargo test --offline "$@" > /tmp/confirm/$ID.demo-clean.log 2>&1; A=$?
tail -5 /tmp/confirm/$ID.demo-clean.log
git apply "$SEED/patch.diff" || { echo "RESULT $ID patch-does-not-apply"; cd /; git -C /repo worktree remove --force "$WT"; exit 2; }
echo "== demo with patch"; cargo test --offline "$@" > /tmp/confirm/$ID.demo-patched.log 2>&1; B=$?
tail -5 /tmp/confirm/$ID.demo-patched.log
rm -f "$DEMO_DST"
echo "== existing suite with patch"; cargo nextest run --workspace --no-fail-fast --offline > /tmp/confirm/$ID.suite.log 2>&1; C=$?
grep -E "Summary|FAIL " /tmp/confirm/$ID.suite.log | sort -u | head -12
echo "RESULT $ID demo_clean_exit=$A demo_patched_exit=$B suite_patched_exit=$C  (want 0, nonzero, 0)"
cd /; git -C /repo worktree remove --force "$WT"
