#!/usr/bin/env python3
"""own_mutants.py <batch> — sensitivity mutants written by me (NOT the independent seeds): one-instance breaks of a rule's
clause, compile-checked only (they are not claimed to pass the test suite).  All mutants of a batch touch disjoint sites,
so they are applied together to ONE scratch worktree, the facts are extracted once, and each property's check must report
its own mutant.  Prints one line per mutant: REPORTED / MISSED.

Scratch worktree under /var/tmp (removed afterwards); /repo is never touched."""
import os
import re
import subprocess
import sys

R = "crates/varpulis-runtime/src/"
C = "crates/varpulis-cli/src/"
P = "crates/varpulis-parser/src/"
K = "crates/varpulis-cluster/src/"

# (property, name, file, old, new, expected key substring)
BATCHES = {
    "1": [
        ("C17", "add_route loses the duplicate test", R + "engine/router.rs",
         "        if !streams.contains(&stream_name.to_string()) {\n            streams.push(stream_name.to_string());\n        }\n",
         "        streams.push(stream_name.to_string());\n", "route"),
        ("C24", "observe_event loses the monotonic guard", R + "watermark.rs",
         "                        Some(wm) if new_wm > wm => sw.watermark = Some(new_wm),\n                        None => sw.watermark = Some(new_wm),\n                        _ => {}\n",
         "                        _ => sw.watermark = Some(new_wm),\n", "monoton"),
        ("C27", "receive_ack loses the checkpoint-id test", R + "context.rs",
         "        if ack.checkpoint_id != pending.checkpoint_id {\n            warn!(\n                \"Received ack for checkpoint {} but expecting {}\",\n                ack.checkpoint_id, pending.checkpoint_id\n            );\n            return None;\n        }\n",
         "", "id-match"),
        ("C31", "validate_path returns the un-canonicalised path", C + "security.rs",
         "    Ok(canonical)\n}\n\n/// Validate and canonicalize a workdir path.", "    Ok(absolute)\n}\n\n/// Validate and canonicalize a workdir path.", ""),
        ("C22", "handle_delete no longer persists", C + "api.rs",
         "        Ok(()) => {\n            mgr.persist_if_needed(&tenant_id);\n            Ok(warp::reply::with_status(\n                warp::reply::json(&serde_json::json!({\"deleted\": true})),",
         "        Ok(()) => {\n            Ok(warp::reply::with_status(\n                warp::reply::json(&serde_json::json!({\"deleted\": true})),", "handle_delete"),
        ("C46", "parse_line skips JSONL lines", R + "event_file.rs",
         "        if line.starts_with(\"BATCH\") || line.starts_with('@') {\n            return Ok(None);",
         "        if line.starts_with(\"BATCH\") || line.starts_with('@') || line.starts_with('{') {\n            return Ok(None);", "'{'"),
        ("C41", "nesting pre-check removed", P + "pest_parser.rs",
         "    check_nesting_depth(&preprocessed)?;\n", "", "nesting"),
        ("C42", "replacen instead of replace", P + "expand.rs",
         "stripped.replace(&pattern, &val.to_string())", "stripped.replacen(&pattern, &val.to_string(), 1)", "substitution"),
        ("C44", "value_to_json renders Bool as a string", C + "websocket.rs",
         "        Value::Bool(b) => serde_json::Value::Bool(*b),\n        Value::Int(i) => serde_json::json!(*i),",
         "        Value::Bool(b) => serde_json::Value::String(b.to_string()),\n        Value::Int(i) => serde_json::json!(*i),", "Bool"),
        ("C26", "dispatch discards the try_send result", R + "context.rs",
         "        match tx.try_send(msg) {\n            Ok(()) => Ok(()),\n            Err(mpsc::error::TrySendError::Full(msg)) => Err(DispatchError::ChannelFull(msg)),\n            Err(mpsc::error::TrySendError::Closed(msg)) => Err(DispatchError::ChannelClosed(msg)),\n        }\n    }\n\n    /// Blocking dispatch",
         "        let _ = tx.try_send(msg);\n        Ok(())\n    }\n\n    /// Blocking dispatch", "dispatch"),
        ("C19", "TumblingWindow::restore drops window_start", R + "window.rs",
         "        self.columnar = ColumnarBuffer::from_events(events);\n        self.window_start = cp.window_start_ms.and_then(DateTime::from_timestamp_millis);\n",
         "        self.columnar = ColumnarBuffer::from_events(events);\n", "window_start"),
        ("C20", "reader maps Timestamp to Duration", R + "persistence.rs",
         "        SerializableValue::Timestamp(ts) => varpulis_core::Value::Timestamp(ts),",
         "        SerializableValue::Timestamp(ts) => varpulis_core::Value::Duration(ts as u64),", "Timestamp"),
        ("C21", "FileStore::put writes the final path directly", R + "persistence.rs",
         "        let tmp_path = path.with_extension(\"tmp\");\n        std::fs::write(&tmp_path, value).map_err(|e| StoreError::IoError(e.to_string()))?;\n        std::fs::rename(&tmp_path, &path).map_err(|e| StoreError::IoError(e.to_string()))?;",
         "        std::fs::write(&path, value).map_err(|e| StoreError::IoError(e.to_string()))?;", "put"),
        ("C45", "send failure arm loses the DLQ write", R + "sink.rs",
         "                let arc_event = Arc::new(event.clone());\n                self.send_to_dlq(&error_msg, &[arc_event]);\n                Err(e)",
         "                let _ = error_msg;\n                Err(e)", "send"),
    ],
    "3": [
        ("C24", "late-data gate: lateness bound strict", R + "engine/mod.rs",
         "if event.timestamp >= effective_wm - cfg.allowed_lateness {", "if event.timestamp > effective_wm - cfg.allowed_lateness {", ""),
        ("C21", "the stores prune the newest checkpoints (all sites)", R + "persistence.rs",
         "        for id in checkpoints.iter().take(to_delete) {",
         "        for id in checkpoints.iter().rev().take(to_delete) {", "prune-oldest"),
        ("C30", "admission needs more than one token", K + "rate_limit.rs",
         "        self.refill();\n\n        if self.tokens >= 1.0 {", "        self.refill();\n\n        if self.tokens > 1.0 {", ""),
        ("C33", "sweep marks unhealthy at elapsed == timeout", K + "health.rs",
         "        if worker.last_heartbeat.elapsed() > timeout {", "        if worker.last_heartbeat.elapsed() >= timeout {", ""),
        ("C03", "Kleene cap off by one", R + "sase.rs",
         "        if let Some(ref kc) = run.kleene_capture {\n            if kc.next_var >= limits.max_events {\n                return RunAdvanceResult::Continue;",
         "        if let Some(ref kc) = run.kleene_capture {\n            if kc.next_var > limits.max_events {\n                return RunAdvanceResult::Continue;", ""),
        ("C12", "session closes at gap equality", R + "window.rs",
         "            if event_time - last_time > self.gap {", "            if event_time - last_time >= self.gap {", ""),
        ("C32", "teardown leaves assigned_pipelines", K + "coordinator.rs",
         "                w.assigned_pipelines.retain(|p| p != name);\n                w.capacity.pipelines_running = w.capacity.pipelines_running.saturating_sub(1);",
         "                w.capacity.pipelines_running = w.capacity.pipelines_running.saturating_sub(1);", ""),
        ("C31", "prefix test on strings", C + "security.rs",
         "    if !canonical.starts_with(&workdir_canonical) {", "    if !canonical.to_string_lossy().starts_with(&*workdir_canonical.to_string_lossy()) {", ""),
        ("C29", "DELETE /workers/{id} loses path::end()", K + "api.rs",
         "        .and(warp::path::param::<String>())\n        .and(warp::path::end())\n        .and(warp::delete())\n        .and(rate_limit_filter.clone())\n        .and(with_rbac(rbac.clone(), Role::Admin))\n        .and(with_coordinator(coordinator.clone()))\n        .and_then(handle_delete_worker);",
         "        .and(warp::path::param::<String>())\n        .and(warp::delete())\n        .and(rate_limit_filter.clone())\n        .and(with_rbac(rbac.clone(), Role::Admin))\n        .and(with_coordinator(coordinator.clone()))\n        .and_then(handle_delete_worker);", "path-end"),
        ("C35", "apply_command reads the clock", K + "raft/state_machine.rs",
         "                    status: \"ready\".to_string(),\n                    cpu_cores: capacity.cpu_cores,",
         "                    status: format!(\"ready@{}\", std::time::SystemTime::now().duration_since(std::time::UNIX_EPOCH).map(|d| d.as_secs()).unwrap_or(0)),\n                    cpu_cores: capacity.cpu_cores,", ""),
        ("C38", "create_connector no longer replicates", K + "api.rs",
         "        let cmd = crate::raft::ClusterCommand::ConnectorCreated {\n            name: body.name.clone(),\n            connector: body.clone(),\n        };\n        if let Err(e) = handle.raft.client_write(cmd).await {\n            return Ok(cluster_error_response(ClusterError::NotLeader(\n                e.to_string(),\n            )));\n        }\n",
         "        let _ = handle;\n", "handle_create_connector"),
    ],
    "2": [
        ("C02", "partitioned run loop keeps a completed run", R + "sase.rs",
         "                    RunAdvanceResult::Complete(result) => {\n                        completed.push(result);\n                        runs.swap_remove(i);\n",
         "                    RunAdvanceResult::Complete(result) => {\n                        completed.push(result);\n                        i += 1;\n", "Complete"),
        ("C04", "SASE partition key taken from the event type", R + "sase.rs",
         "            let partition_key = shared_event\n                .get(partition_field)\n                .map(|v| v.to_partition_key().into_owned())\n                .unwrap_or_default();\n\n            completed\n",
         "            let _ = partition_field;\n            let partition_key = shared_event.event_type.to_string();\n\n            completed\n", ""),
        ("C05", "run cap tested with <=", R + "sase.rs",
         "        if self.runs.len() < self.max_runs {\n            self.runs.push(run);\n            return (true, None);",
         "        if self.runs.len() <= self.max_runs {\n            self.runs.push(run);\n            return (true, None);", ""),
        ("C03", "Kleene self-loop loses the max_events test", R + "sase.rs",
         "        if let Some(ref kc) = run.kleene_capture {\n            if kc.next_var >= limits.max_events {\n                return RunAdvanceResult::Continue;\n            }\n        }\n\n        // PERF(Opt4)",
         "        // PERF(Opt4)", ""),
        ("C29", "DELETE /workers/{id} downgraded to Viewer", K + "api.rs",
         "        .and(warp::delete())\n        .and(rate_limit_filter.clone())\n        .and(with_rbac(rbac.clone(), Role::Admin))\n        .and(with_coordinator(coordinator.clone()))\n        .and_then(handle_delete_worker);",
         "        .and(warp::delete())\n        .and(rate_limit_filter.clone())\n        .and(with_rbac(rbac.clone(), Role::Viewer))\n        .and(with_coordinator(coordinator.clone()))\n        .and_then(handle_delete_worker);", "delete_worker"),
        ("C30", "refill loses the clamp", K + "rate_limit.rs",
         "        self.tokens = (self.tokens + new_tokens).min(self.max_tokens);", "        self.tokens = self.tokens + new_tokens;", ""),
        ("C32", "commit_migrate_pipeline forgets pipelines_running += 1", K + "coordinator.rs",
         "                w.assigned_pipelines.push(plan.pipeline_name.clone());\n                w.capacity.pipelines_running += 1;\n",
         "                w.assigned_pipelines.push(plan.pipeline_name.clone());\n", ""),
        ("C33", "health sweep ignores the Ready test", K + "health.rs",
         "        if worker.status != WorkerStatus::Ready {\n            continue;\n        }\n\n", "", ""),
        ("C34", "route pattern compared case-insensitively", K + "routing.rs",
         "        event_type == pattern\n    }\n}", "        event_type.eq_ignore_ascii_case(pattern)\n    }\n}", ""),
        ("C18", "Limit classified stateless", R + "engine/mod.rs",
         "                            | RuntimeOp::To(_)\n                    )", "                            | RuntimeOp::To(_)\n                            | RuntimeOp::Limit(_)\n                    )", "Limit"),
        ("C10", "new rewrite x - x -> 0", P + "optimize.rs",
         "        // x - 0 → x\n        (BinOp::Sub, _, Expr::Int(0))", "        (BinOp::Sub, a, b) if a == b => return Expr::Int(0),\n        // x - 0 → x\n        (BinOp::Sub, _, Expr::Int(0))", "Sub"),
        ("C09", "SASE mixed comparison truncates the float", R + "sase.rs",
         "        (Value::Int(a), Value::Float(b)) => (*a as f64).partial_cmp(b),\n", "        (Value::Int(a), Value::Float(b)) => a.partial_cmp(&(*b as i64)),\n", ""),
        ("C12", "tumbling window closes with >", R + "window.rs",
         "        if event_time >= window_end {\n            // Window is complete, emit and start new window", "        if event_time > window_end {\n            // Window is complete, emit and start new window", ""),
        ("C13", "count-sliding emits with > slide_size", R + "window.rs",
         "self.events_since_emit >= self.slide_size).then(", "self.events_since_emit > self.slide_size).then(", ""),
        ("C14", "ColumnarBuffer::push keeps the column cache", R + "columnar.rs",
         "        if !self.columns.is_empty() {\n            self.columns.clear();\n        }\n    }\n\n    /// Drain the first `count` events", "    }\n\n    /// Drain the first `count` events", ""),
        ("C16", "one entry point gets MAX_CHAIN_DEPTH = 5", R + "engine/mod.rs",
         None, None, "chain-depth"),
        ("C23", "reload keeps the old router", R + "engine/mod.rs",
         "        self.router = new_engine.router;\n", "", ""),
        ("C37", "create_connector ignores a failed replication", K + "api.rs",
         "            connector: body.clone(),\n        };\n        if let Err(e) = handle.raft.client_write(cmd).await {\n            return Ok(cluster_error_response(ClusterError::NotLeader(\n                e.to_string(),\n            )));\n        }\n    }\n\n    match coord.create_connector(body) {",
         "            connector: body.clone(),\n        };\n        let _ = handle.raft.client_write(cmd).await;\n    }\n\n    match coord.create_connector(body) {", "handle_create_connector"),
        ("C36", "apply_to_state_machine ignores the save_meta error", K + "raft/persistent_store.rs",
         "        self.save_meta(KEY_LAST_MEMBERSHIP, &mem_data)?;\n\n        // Publish updated state", "        let _ = self.save_meta(KEY_LAST_MEMBERSHIP, &mem_data);\n\n        // Publish updated state", ""),
        ("C40", "cross-variant equality arm", "crates/varpulis-core/src/value.rs",
         "            (Value::Float(a), Value::Float(b)) => float_eq(*a, *b),\n", "            (Value::Float(a), Value::Float(b)) => float_eq(*a, *b),\n            (Value::Int(a), Value::Float(b)) => float_eq(*a as f64, *b),\n", ""),
    ],
}


def sh(*a, **kw):
    return subprocess.run(a, capture_output=True, text=True, **kw)


def main():
    batch = sys.argv[1]
    only = set(sys.argv[2:])
    muts = [m for m in BATCHES[batch] if not only or m[0] in only]
    wt = "/var/tmp/verif-own-%d" % os.getpid()
    r = sh("git", "-C", "/repo", "worktree", "add", "--detach", wt, "HEAD")
    if r.returncode:
        print("worktree failed", r.stderr)
        return 2
    tag = "own%s-%d" % (batch, os.getpid())
    try:
        applied = []
        for prop, name, f, old, new, want in muts:
            p = os.path.join(wt, f)
            s = open(p).read()
            if old is None:  # C16: first of the four function-local constants
                open(p, "w").write(s.replace("const MAX_CHAIN_DEPTH: usize = 10;", "const MAX_CHAIN_DEPTH: usize = 5;", 1))
                applied.append((prop, name, want))
                continue
            if name.endswith("(all sites)") and s.count(old) >= 1:
                open(p, "w").write(s.replace(old, new))
                applied.append((prop, name, want))
                continue
            if s.count(old) != 1:
                print("SKIP   %s %-45s anchor text found %d times in %s" % (prop, name, s.count(old), f))
                continue
            open(p, "w").write(s.replace(old, new))
            applied.append((prop, name, want))
        env = dict(os.environ, VERIF_REPO=wt, VERIF_TAG=tag)
        for prop, name, want in applied:
            p = sh("/verif/check", prop, env=env, cwd="/verif")
            keys = re.findall(r"^\s+(?:violation|anchor lost / unrecognised shape) \[(.+?)\]", p.stdout, re.M)
            hit = [k for k in keys if want.lower() in k.lower()] if want else keys
            status = "REPORTED" if p.returncode == 1 and hit else ("REPORTED?" if p.returncode == 1 and keys else "MISSED")
            print("%-9s %s %-45s %s" % (status, prop, name, (hit or keys)[:3]))
            if "error" in p.stderr.lower() and "could not compile" in p.stderr:
                print("   (scratch tree does not compile)\n" + p.stderr[-600:])
    finally:
        sh("git", "-C", "/repo", "worktree", "remove", "--force", wt)
        sh("bash", "-c", "rm -rf /verif/.cache/facts/*@%s /verif/out/violations-%s" % (tag, tag))
    return 0


if __name__ == "__main__":
    sys.exit(main())
