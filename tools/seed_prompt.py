#!/usr/bin/env python3
"""Print the prompt for a mutant-writing sub-agent for property <id>, and create its scratch worktree."""
import json, os, subprocess, sys
pid = sys.argv[1]
suffix = sys.argv[2] if len(sys.argv) > 2 else ""
p = [json.loads(l) for l in open('/verif/properties.jsonl') if json.loads(l)['id'] == pid][0]
base = '/tmp/seed/%s%s' % (pid, suffix)
wt = base + '/wt'
os.makedirs(base, exist_ok=True)
if not os.path.exists(wt):
    subprocess.run(['git', '-C', '/repo', 'worktree', 'add', '--detach', wt, 'HEAD'], check=True, capture_output=True)
a = p['anchors']
mech = "\n".join("  - %s: %s" % (m['name'], m['where']) for m in a.get('mechanism', []))
print(f"""You are helping evaluate a verification effort for the Rust project varpulis (a complex-event-processing engine: VPL DSL parser, SASE+ NFA pattern matcher, windows/aggregation, Raft-backed cluster). Your job is to write ONE realistic, subtle BUG-INTRODUCING change (a "seeded defect") that breaks the semantic property below, while the project still compiles and its existing test suite still passes.

Your private scratch git worktree of the repository is at: {wt}
Work ONLY inside {base} (the worktree and an output directory {base}/out). Do NOT touch /repo or /verif, and do not read anything under /verif. Do NOT use `git stash` (the stash is shared with other worktrees of the same repository and other agents are working in them): to test without your change use `git diff > /tmp/seed/<id>/my.diff && git apply -R ...` or keep a copy of the file. The sandbox is offline: use `--offline` with cargo. IMPORTANT (disk is limited): do NOT copy /repo/target and do NOT create your own target directory; use the shared build directory by setting `CARGO_TARGET_DIR=/tmp/seed/target` for every cargo command (dependencies are built there once; other agents use it too, so cargo may print "Blocking waiting for file lock" - just wait). The machine is busy, builds can take several minutes; prefer `cargo test -p <crate>` while iterating.

THE PROPERTY
Title: {p['title']}
Statement: {p['statement']}
Quantified over: {p['quantifier']['text']}
Relevant files: {', '.join(a.get('files', []))}
Mechanisms:
{mech}

WHAT TO PRODUCE
1. A source change to the repository (non-test code under crates/*/src) that makes the property FALSE for some input / schedule / history, yet:
   - the workspace still compiles (`cargo build --workspace --offline`),
   - the existing tests still pass: run at least the tests of the crate(s) you touched, e.g. `cargo test -p <crate> --offline` (the full suite is `cargo nextest run --workspace --offline` or `cargo test --workspace --offline`); do not edit, delete or ignore existing tests.
   Prefer a change that needs something SPECIFIC to manifest — a particular interleaving, a crash or fault at a particular point, a multi-step sequence of operations, an unusual input (boundary value, specific type mix, tie, empty collection), or two cooperating sites that each look fine alone — NOT one that ordinary use or the existing tests would expose at once. It should look like a plausible mistake or 'simplification' a developer could make (an off-by-one in a boundary, a dropped guard, a forgotten field in save/restore, a wrong operand, a reordered pair of steps, a missed case in one of two sibling implementations), not sabotage. Keep it small (a few lines).
2. A demonstration: a new test file (e.g. crates/<crate>/tests/seed_demo.rs) or a small program that FAILS with your change and PASSES on the unchanged code. Verify both directions yourself (use `git stash` or apply/revert the patch).
3. Write into {base}/out/ :
   - patch.diff  : `git diff` of the source change ONLY (not including the demo test), relative to the worktree root, applicable with `git apply`.
   - demo/       : the demonstration file(s), plus demo/README.md giving the exact command(s) to run it and where the file must be placed.
   - meta.json   : {{"property": "{pid}", "summary": "...what was changed...", "needs": "...what specific input/sequence/schedule is needed for it to manifest...", "files_touched": [...], "commands_run": [...], "existing_tests_result": "...", "demo_result_with_patch": "...", "demo_result_without_patch": "..."}}
Finish by replying with a short summary (what you changed, file and function, and how it manifests). If after serious effort you cannot find a change that keeps the existing tests green, say so and describe the closest candidate.
""")
